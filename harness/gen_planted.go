package main

import (
	"fmt"
	"strings"
)

// Planted defects: small projects with exactly one defect whose place is known by construction
// (file and line of the offending token), independent of the builder's own bookkeeping. The
// oracle of C07 (c) requires the error to be reported on that line of that file.

// genPlanted returns the project and where its error has to be.
func genPlanted(r *Rand) (*Project, *Expect) {
	p := &Project{Kind: "planted-defect", Root: "root.jst"}
	nl := "\n"
	if r.Chance(1, 4) {
		nl = "\r\n"
	}
	type block struct {
		lines []string
		mark  int // index of the offending line within lines, -1: none
		col   int // > 0: the error has to point at this byte of the marked line (1-based), else anywhere on it
	}
	var blocks []block
	why, msgHas := "", ""
	switch r.Intn(4) {
	case 3:
		// one parameter too many, after a first parameter that is quoted and contains blanks (or
		// that it follows without a blank): the error is about the second one and points at it
		type pd struct {
			pre  []string
			line string
			at   string // the offending parameter (its first occurrence after the first parameter)
			post []string
		}
		cands := []pd{
			{[]string{"INFO"}, `  Title "My API" "x"`, `"x"`, nil},
			{nil, `GET "/a b" /c`, `/c`, []string{"  200 any"}},
			{[]string{"GET /pl"}, `  OperationId "get cats" again // note`, `again`, []string{"  200 any"}},
			{nil, `GET "/a"/c`, `/c`, []string{"  200 any"}},
			{nil, `TYPE @plcat zzz2`, `zzz2`, []string{`  {"a": 1}`}},
			{[]string{"INFO"}, `  Version "1.0 beta" 2`, `2`, nil},
		}
		c := cands[r.Intn(len(cands))]
		if r.Chance(1, 3) {
			c.line = strings.Replace(c.line, " ", "\t", 1) // a tab between the keyword and the first parameter
			if c.line[0] == '\t' {
				c.line = " " + c.line
			}
		}
		first := strings.Index(c.line, c.at)
		if strings.HasPrefix(strings.TrimLeft(c.line, " \t"), "GET \"/a\"/c") || strings.Contains(c.line, "\"/a\"/c") {
			first = strings.LastIndex(c.line, "/c")
		} else if c.at == `"x"` || c.at == "2" || c.at == "z" || c.at == "/c" || c.at == "again" || c.at == "zzz2" {
			first = strings.LastIndex(c.line, c.at)
		}
		b := block{mark: len(c.pre), col: first + 1}
		b.lines = append(append(append(b.lines, c.pre...), c.line), c.post...)
		blocks = append(blocks, b)
		blocks = append(blocks, block{lines: []string{"GET /planted2", "  200 any"}, mark: -1})
		why = "a superfluous parameter after a quoted one: " + strings.TrimSpace(c.line)
	case 0:
		// a chain of 3-5 user types; the deepest one has a defect that is only found when its
		// schema is loaded (on behalf of a type further up the chain)
		k := r.Range(3, 5)
		bad := [][2]string{
			{`"z": 1 // {foo: 1}`, "foo"},
			{`"z": 1 // {min: "q"}`, ""},
			{`"z": "s" // {type: "integer"}`, ""},
			{`"z": 5 // {max: 2, min: 9}`, ""},
		}[r.Intn(4)]
		msgHas = bad[1]
		for i := 0; i < k; i++ {
			b := block{mark: -1}
			if i == k-1 {
				b.lines = []string{fmt.Sprintf("TYPE @pc%d", i), "{", `  "y": 2,`, "  " + bad[0], "}"}
				b.mark = 3
			} else {
				b.lines = []string{fmt.Sprintf("TYPE @pc%d", i), "{", fmt.Sprintf(`  "p": @pc%d`, i+1), "}"}
			}
			blocks = append(blocks, b)
		}
		blocks = append(blocks, block{lines: []string{"GET /planted", "  200 @pc0"}, mark: -1})
		why = fmt.Sprintf("the defect sits in the deepest of %d chained user types (@pc%d)", k, k-1)
	case 1:
		// an undefined type deep inside a multi-line body
		blocks = append(blocks, block{lines: []string{"TYPE @ok", "{", `  "a": 1`, "}"}, mark: -1})
		blocks = append(blocks, block{lines: []string{"POST /planted", "  Request", "    {", `      "a": @ok,`, `      "b": {`, `        "c": [@ok, @nopePlanted]`, "      }", "    }", "  200 any"}, mark: 5})
		msgHas, why = "nopePlanted", "the undefined type is named on one line of a request body"
	default:
		// the second of two bodies of one directive
		blocks = append(blocks, block{lines: []string{"POST /planted", "  Request", "    Headers", "      {", `        "X-A": "a"`, "      }", "    Body", "      {", `        "b": @nopePlanted2`, "      }", "  200 any"}, mark: 8})
		msgHas, why = "nopePlanted2", "the undefined type is named in the Body that follows the Headers of a Request"
	}
	// definition order: any permutation (types may be used before they are declared)
	perm := r.Perm(len(blocks))
	// the marked block may live in an included file (included at top level from the root)
	inc := r.Chance(1, 2)
	root := []string{"JSIGHT 0.3"}
	for i := 0; i < r.Intn(3); i++ {
		root = append(root, "")
	}
	var ex Expect
	for _, bi := range perm {
		b := blocks[bi]
		if b.mark >= 0 && inc {
			name := "sub/planted.jst"
			pre := r.Intn(3)
			var fl []string
			for i := 0; i < pre; i++ {
				fl = append(fl, "")
			}
			ex = Expect{File: name, Off: -1, Line: len(fl) + b.mark + 1}
			if b.col > 0 {
				ex.Off = len(strings.Join(fl, nl)) + len(strings.Join(b.lines[:b.mark], nl)) + b.col - 1
				if len(fl) > 0 {
					ex.Off += len(nl)
				}
				if b.mark > 0 {
					ex.Off += len(nl)
				}
			}
			fl = append(fl, b.lines...)
			p.Files = append(p.Files, GenFile{Path: name, Data: []byte(strings.Join(fl, nl) + nl), CRLF: nl != "\n"})
			root = append(root, "INCLUDE "+name)
			continue
		}
		if b.mark >= 0 {
			ex = Expect{File: "root.jst", Off: -1, Line: len(root) + b.mark + 1}
			if b.col > 0 {
				ex.Off = len(strings.Join(root, nl)) + len(nl) + len(strings.Join(b.lines[:b.mark], nl)) + b.col - 1
				if b.mark > 0 {
					ex.Off += len(nl)
				}
			}
		}
		root = append(root, b.lines...)
		if r.Chance(1, 3) {
			root = append(root, "")
		}
	}
	ex.Why, ex.MsgHas = "planted defect: "+why, msgHas
	p.Files = append([]GenFile{{Path: "root.jst", Data: []byte(strings.Join(root, nl) + nl), CRLF: nl != "\n"}}, p.Files...)
	p.Features = append(p.Features, "planted:"+strings.SplitN(why, " ", 4)[2])
	return p, &ex
}
