package main

import (
	"bufio"
	"encoding/json"
	"flag"
	"fmt"
	"io"
	"os"
	"os/exec"
	"path/filepath"
	"regexp"
	"runtime"
	"sort"
	"strconv"
	"strings"
	"sync"
	"time"
)

// Driver: derives run seeds from VERIF_SEED, farms runs out to worker processes, confirms,
// attributes and minimises violations, writes the replay file and the evidence file.
//
// exit 0: property held on everything explored (KNOWN-FINDING lines may have been printed)
// exit 1: VIOLATION line printed
// exit 2: build/harness trouble - never reported as a violation

type Phase struct {
	Mode  string  // passed to the engine in Job.Mode
	Count int     // number of jobs; 0 = as many as the time share allows
	Share float64 // share of the search budget (only for Count == 0)
}

type Planner interface {
	Plan(tier string) []Phase
}

type Shrinker interface {
	// Shrinks returns simpler variants of c, most aggressive first.
	Shrinks(c *Case) []*Case
}

type driverCfg struct {
	prop, tier    string
	seed          uint64
	workers       int
	budget        time.Duration
	maxRuns       int
	scratch       string
	sites, corpus string
	evidence      string
	known         string
	replays       string
	race          bool
	jobTimeout    time.Duration
	minimiseFor   time.Duration
	regress       string
}

type worker struct {
	hist   []Job // jobs this process has executed so far (most recent last), without their cases
	id     int
	cmd    *exec.Cmd
	in     io.WriteCloser
	out    *bufio.Reader
	errLog string
}

func (d *driverCfg) workerArgs(dir string) []string {
	a := []string{"-dir", dir, "-sites", d.sites, "-corpus", d.corpus, "-timeout", d.jobTimeout.String(), "-known", d.known, "-prop", d.prop}
	if d.race {
		a = append(a, "-racelog", filepath.Join(d.scratch, "race", filepath.Base(dir)))
	}
	return a
}

var workerSerial int
var workerSerialMu sync.Mutex

func (d *driverCfg) spawn() (*worker, error) {
	workerSerialMu.Lock()
	workerSerial++
	id := workerSerial
	workerSerialMu.Unlock()
	dir := filepath.Join(d.scratch, "w", strconv.Itoa(id))
	self, _ := os.Executable()
	os.MkdirAll(d.scratch, 0o755)
	cmd := exec.Command(self, append([]string{"worker"}, d.workerArgs(dir)...)...)
	cmd.Env = os.Environ()
	if d.race {
		os.MkdirAll(filepath.Join(d.scratch, "race"), 0o755)
		cmd.Env = append(cmd.Env, "GORACE=log_path="+filepath.Join(d.scratch, "race", strconv.Itoa(id))+" halt_on_error=0 exitcode=0 history_size=3")
	}
	w := &worker{id: id, cmd: cmd, errLog: filepath.Join(d.scratch, fmt.Sprintf("w%d.stderr", id))}
	ef, err := os.Create(w.errLog)
	if err != nil {
		return nil, err
	}
	cmd.Stderr = ef
	w.in, _ = cmd.StdinPipe()
	op, _ := cmd.StdoutPipe()
	w.out = bufio.NewReaderSize(op, 1<<20)
	if err := cmd.Start(); err != nil {
		return nil, err
	}
	ef.Close()
	return w, nil
}

func (w *worker) kill() {
	w.in.Close()
	done := make(chan struct{})
	go func() { w.cmd.Wait(); close(done) }()
	select {
	case <-done:
	case <-time.After(2 * time.Second):
		w.cmd.Process.Kill()
		<-done
	}
}

// stderrTail returns the beginning of the worker's stderr (where a fatal error announces
// itself) and, when it is long, its end.
func (w *worker) stderrTail(n int) string {
	b, _ := os.ReadFile(w.errLog)
	if len(b) > n {
		return string(b[:n/2]) + "\n[...]\n" + string(b[len(b)-n/2:])
	}
	return string(b)
}

// do sends one job and waits for its result. died == true when the process went away.
func (w *worker) do(job *Job) (res *Result, died bool) {
	b, _ := json.Marshal(job)
	b = append(b, '\n')
	if _, err := w.in.Write(b); err != nil {
		return nil, true
	}
	for {
		line, err := w.out.ReadBytes('\n')
		if err != nil {
			return nil, true
		}
		var m wireMsg
		if json.Unmarshal(line, &m) != nil {
			continue
		}
		if m.Result != nil {
			return m.Result, false
		}
	}
}

// runAlone executes one job in a fresh worker process.
func (d *driverCfg) runAlone(job *Job) (res *Result, died bool, stderr string) {
	w, err := d.spawn()
	if err != nil {
		fatal2("cannot start worker: %v", err)
	}
	res, died = w.do(job)
	w.kill()
	return res, died, w.stderrTail(4000)
}

func fatal2(f string, a ...any) {
	fmt.Fprintf(os.Stderr, "harness: "+f+"\n", a...)
	os.Exit(2)
}

type agg struct {
	evals       int
	nontrivial  map[string]bool
	counters    map[string]int
	steps       int64
	skips       int
	foreign     map[string]int
	known       map[string]int
	samples     []json.RawMessage
	perMode     map[string]int
	wallUS      int64
	harnessErrs []string
	unconfirmed int // harness errors that are violations seen once and not reproduced
}

func driveMain() {
	fl := flag.NewFlagSet("drive", flag.ExitOnError)
	d := &driverCfg{}
	fl.StringVar(&d.prop, "prop", "", "")
	fl.StringVar(&d.tier, "tier", "quick", "")
	fl.Uint64Var(&d.seed, "seed", 1, "")
	fl.IntVar(&d.workers, "workers", 0, "")
	fl.DurationVar(&d.budget, "budget", 40*time.Second, "wall-clock budget of the seeded search")
	fl.IntVar(&d.maxRuns, "runs", 0, "stop after this many runs (0: budget only)")
	fl.StringVar(&d.scratch, "scratch", "", "")
	fl.StringVar(&d.sites, "sites", "", "")
	fl.StringVar(&d.corpus, "corpus", "", "")
	fl.StringVar(&d.evidence, "evidence", "", "")
	fl.StringVar(&d.known, "known", "", "")
	fl.StringVar(&d.replays, "replays", "", "")
	fl.BoolVar(&d.race, "race", false, "binary was built with -race")
	fl.DurationVar(&d.jobTimeout, "job-timeout", 120*time.Second, "")
	fl.DurationVar(&d.minimiseFor, "minimise", 60*time.Second, "")
	fl.StringVar(&d.regress, "regress", "", "directory with replay files of past findings (re-executed first)")
	fl.Parse(os.Args[2:])
	if d.workers <= 0 {
		d.workers = runtime.NumCPU()
		if d.workers > 16 {
			d.workers = 16
		}
	}
	eng := engines[d.prop]
	if eng == nil {
		fatal2("no engine for property %q", d.prop)
	}
	wenv.corpus = d.corpus // the driver generates cases too (confirmation of process deaths)
	loadSiteTable(d.sites)
	known := loadKnown(d.known, d.prop)
	fmt.Printf("VERIF_SEED=%d property=%s tier=%s workers=%d budget=%v\n", d.seed, d.prop, d.tier, d.workers, d.budget)

	phases := []Phase{{Mode: "", Count: 0, Share: 1}}
	if p, ok := eng.(Planner); ok {
		phases = p.Plan(d.tier)
	}

	t0 := time.Now()
	a := &agg{nontrivial: map[string]bool{}, counters: map[string]int{}, foreign: map[string]int{}, known: map[string]int{}, perMode: map[string]int{}}
	var violations []*Result
	nextID := 0
	// Phase 0: the cases of past findings (committed replay files) are executed first.
	if d.regress != "" {
		files, _ := filepath.Glob(filepath.Join(d.regress, d.prop+"-*.json"))
		sort.Strings(files)
		for _, f := range files {
			b, err := os.ReadFile(f)
			if err != nil {
				continue
			}
			var rf replayFile
			if json.Unmarshal(b, &rf) != nil || rf.Case == nil || rf.Property != d.prop {
				fatal2("bad regression file %s", f)
			}
			job := &Job{ID: nextID, Prop: d.prop, Seed: rf.RunSeed, Tier: d.tier, Case: rf.Case}
			nextID++
			res, died, stderr := d.runAlone(job)
			a.evals++
			a.perMode["regression-replay"]++
			if died {
				if ownsDeath(d.prop) {
					violations = append(violations, &Result{Seed: rf.RunSeed, Verdict: "violation", Class: "process-death", Sig: "process-death", Msg: "regression case " + filepath.Base(f) + ": the process died\n" + lastLines(stderr, 20), Case: rf.Case})
				}
				continue
			}
			if res.Verdict == "violation" {
				if k := matchKnown(known, res); k != "" {
					a.known[k]++
					continue
				}
				res.Case = rf.Case
				res.Msg = "regression case " + filepath.Base(f) + ": " + res.Msg
				violations = append(violations, res)
			}
		}
	}
	for _, ph := range phases {
		if len(violations) > 0 {
			break
		}
		var deadline time.Time
		if ph.Count == 0 {
			deadline = time.Now().Add(time.Duration(float64(d.budget) * ph.Share))
		} else {
			deadline = time.Now().Add(d.budget * 4) // enumerations are bounded by their count; this is a safety net
		}
		vs := d.runPhase(eng, ph, deadline, &nextID, a, known)
		violations = append(violations, vs...)
		if len(violations) > 0 {
			break
		}
	}
	wall := time.Since(t0)

	exit := 0
	var report []map[string]any
	if len(a.harnessErrs) > 0 {
		fmt.Fprintf(os.Stderr, "harness errors (%d), first: %s\n", len(a.harnessErrs), a.harnessErrs[0])
		exit = 2
		if len(violations) > 0 && a.unconfirmed == len(a.harnessErrs) {
			// every harness error is an observation that did not reproduce, and there is a violation
			// that DID reproduce in a fresh process: report that one
			exit = 0
		}
	}
	// every listed known finding of this property is printed, with the number of runs of this
	// batch that reproduced it (a seeded search may not hit each of them every time)
	for _, k := range known {
		fmt.Printf("KNOWN-FINDING: property=%s %s (reproduced by %d runs of this batch)\n", d.prop, k.What, a.known[k.What])
	}
	if exit == 0 && len(violations) > 0 {
		v := violations[0]
		// minimise, then write the replay file
		min := d.minimise(eng, v)
		path := d.writeReplay(min)
		fmt.Printf("violation class=%s seed=%d: %s\n", min.Class, min.Seed, firstLine(min.Msg))
		fmt.Printf("VIOLATION property=%s replay=%s\n", d.prop, path)
		report = append(report, map[string]any{"class": min.Class, "seed": min.Seed, "msg": min.Msg, "replay": path})
		exit = 1
	}
	if exit != 2 && a.evals > 0 && a.skips*5 > a.evals*4 {
		fmt.Fprintf(os.Stderr, "harness: %d of %d runs were skipped - the workload is not exercising the property\n", a.skips, a.evals)
		exit = 2
	}
	d.writeEvidence(a, wall, len(violations), report)
	fmt.Printf("runs=%d distinct_nontrivial=%d skipped=%d wall=%.1fs exit=%d\n", a.evals, len(a.nontrivial), a.skips, wall.Seconds(), exit)
	os.Exit(exit)
}

func loadSiteTable(path string) {
	b, err := os.ReadFile(path)
	if err != nil {
		return
	}
	var st struct {
		Sites    []string `json:"sites"`
		MapSites []string `json:"map_sites"`
	}
	if json.Unmarshal(b, &st) == nil {
		wenv.sites, wenv.mapSites = st.Sites, st.MapSites
	}
}

func firstLine(s string) string {
	if i := strings.IndexByte(s, '\n'); i >= 0 {
		return s[:i]
	}
	return s
}

func (d *driverCfg) runPhase(eng Engine, ph Phase, deadline time.Time, nextID *int, a *agg, known []knownEntry) []*Result {
	var mu sync.Mutex
	idx := 0
	stop := false
	var violations []*Result
	var wg sync.WaitGroup
	take := func() *Job {
		mu.Lock()
		defer mu.Unlock()
		if stop || time.Now().After(deadline) {
			return nil
		}
		if ph.Count > 0 && idx >= ph.Count {
			return nil
		}
		if d.maxRuns > 0 && a.evals+idx >= d.maxRuns && ph.Count == 0 {
			return nil
		}
		k := *nextID
		*nextID++
		j := &Job{ID: k, Prop: d.prop, Seed: RunSeed(d.seed, uint64(k)), Tier: d.tier, Mode: ph.Mode, Index: idx, Sample: len(a.samples) < 3 && idx%7 == 3}
		idx++
		return j
	}
	handle := func(job *Job, res *Result) {
		mu.Lock()
		defer mu.Unlock()
		a.evals++
		a.perMode[ph.Mode]++
		a.steps += int64(res.Steps)
		a.wallUS += res.WallUS
		for k, v := range res.Counters {
			if strings.HasPrefix(k, "max:") {
				if v > a.counters[k] {
					a.counters[k] = v
				}
				continue
			}
			a.counters[k] += v
		}
		for _, f := range res.Foreign {
			a.foreign[f]++
		}
		if res.NonTrivial && res.Key != "" {
			a.nontrivial[res.Key] = true
		}
		if job.Sample && res.Case != nil && len(a.samples) < 3 && res.Verdict == "ok" {
			s, _ := json.Marshal(map[string]any{"seed": res.Seed, "case": res.Case, "detail": res.Detail, "verdict": res.Verdict})
			a.samples = append(a.samples, s)
		}
		switch res.Verdict {
		case "skip":
			a.skips++
		case "harness-error":
			a.harnessErrs = append(a.harnessErrs, res.Msg)
			if strings.Contains(res.Msg, "did not reproduce in a fresh process") {
				// an observation that could not be confirmed: keep searching - a confirmed,
				// replayable violation of the same batch is still a violation (see the exit logic)
				a.unconfirmed++
			} else {
				stop = true
			}
		case "violation":
			if k := matchKnown(known, res); k != "" {
				a.known[k]++
				return
			}
			violations = append(violations, res)
			if len(violations) >= 1 {
				stop = true
			}
		}
	}
	for i := 0; i < d.workers; i++ {
		wg.Add(1)
		go func() {
			defer wg.Done()
			w, err := d.spawn()
			if err != nil {
				fatal2("cannot start worker: %v", err)
			}
			defer func() { w.kill() }()
			for {
				job := take()
				if job == nil {
					return
				}
				res, died := w.do(job)
				hist := append([]Job(nil), w.hist...)
				w.hist = append(w.hist, Job{ID: job.ID, Prop: job.Prop, Seed: job.Seed, Tier: job.Tier, Mode: job.Mode, Index: job.Index})
				if len(w.hist) > 200 {
					w.hist = w.hist[len(w.hist)-200:]
				}
				if died || (res != nil && res.Verdict == "violation" && (res.Class == "hang" || res.Class == "deadlock")) {
					tail := w.stderrTail(3000)
					w.kill()
					if died {
						res = d.confirmDeath(eng, job, tail)
					}
					w, err = d.spawn()
					if err != nil {
						fatal2("cannot restart worker: %v", err)
					}
				}
				if res != nil && res.Verdict == "violation" && res.Class != "process-death" {
					res = d.confirm(eng, job, res, hist)
				}
				if res != nil && res.Verdict == "violation" && (res.Class == "process-death" || res.Class == "hang") && !ownsDeath(d.prop) {
					// a build that kills or wedges the process is C01's finding, not this property's
					res = &Result{ID: res.ID, Seed: res.Seed, Verdict: "ok", Foreign: []string{"C01:" + res.Class}}
				}
				if res != nil {
					handle(job, res)
				}
			}
		}()
	}
	wg.Wait()
	return violations
}

// confirmDeath: a worker died while executing job. Re-execute that job alone in a fresh
// process; only if that one dies too is it a finding.
func (d *driverCfg) confirmDeath(eng Engine, job *Job, tail string) *Result {
	c := job.Case
	if c == nil {
		c = eng.Gen(job)
	}
	j2 := *job
	j2.Case = c
	res, died, stderr := d.runAlone(&j2)
	if !died {
		if res != nil && res.Verdict == "violation" {
			return res
		}
		return &Result{ID: job.ID, Seed: job.Seed, Verdict: "harness-error", Msg: "worker died during a run that does not kill a fresh process (not reproducible):\n" + tail}
	}
	sig := "process-death"
	for _, l := range strings.Split(stderr, "\n") {
		if strings.HasPrefix(l, "fatal error:") || strings.HasPrefix(l, "runtime: goroutine stack exceeds") || strings.HasPrefix(l, "panic:") {
			sig = "process-death: " + l
			break
		}
	}
	if strings.Contains(stderr, "fatal error: stack overflow") {
		// which recursion? the functions that fill the printed part of the stack; and, for the
		// deliberately deep documents of the depth phase, which of them it was
		sig = "process-death: stack overflow"
		if strings.HasPrefix(c.Note, "depth:") {
			sig += " (" + c.Note + ")"
		}
		sig += " in [" + strings.Join(recursiveFrames(stderr, 3), " | ") + "]"
	}
	return &Result{ID: job.ID, Seed: c.Seed, Verdict: "violation", Class: "process-death", Sig: sig,
		Msg: "the process executing the build died:\n" + lastLines(stderr, 30), Case: c}
}

var frameRE = regexp.MustCompile(`(?m)^([A-Za-z0-9_./\-]+\.[A-Za-z0-9_.()*\-]+)\(`)

// recursiveFrames: the n most frequent non-runtime functions of a goroutine dump, most frequent first.
func recursiveFrames(dump string, n int) []string {
	cnt := map[string]int{}
	for _, m := range frameRE.FindAllStringSubmatch(dump, -1) {
		f := m[1]
		if strings.HasPrefix(f, "runtime.") || strings.HasPrefix(f, "main.") || strings.HasPrefix(f, "simrt.") {
			continue
		}
		if i := strings.Index(f, "jsightapi/"); i >= 0 {
			f = f[i+len("jsightapi/"):]
		}
		cnt[f]++
	}
	var fs []string
	for f := range cnt {
		fs = append(fs, f)
	}
	sort.Slice(fs, func(i, j int) bool {
		if cnt[fs[i]] != cnt[fs[j]] {
			return cnt[fs[i]] > cnt[fs[j]]
		}
		return fs[i] < fs[j]
	})
	if len(fs) > n {
		fs = fs[:n]
	}
	return fs
}

func ownsDeath(prop string) bool { return prop == "C01" || prop == "C18" }

func lastLines(s string, n int) string {
	ll := strings.Split(strings.TrimRight(s, "\n"), "\n")
	if len(ll) > n {
		ll = ll[:n]
	}
	return strings.Join(ll, "\n")
}

// confirm re-executes a violating case in a fresh process. A violation that does not
// reproduce is a harness determinism problem, not a finding.
func (d *driverCfg) confirm(eng Engine, job *Job, res *Result, hist []Job) *Result {
	if res.Case == nil {
		return res
	}
	j2 := *job
	j2.Case = res.Case
	r2, died, stderr := d.runAlone(&j2)
	if died {
		return &Result{ID: job.ID, Seed: res.Seed, Verdict: "violation", Class: "process-death", Sig: "process-death",
			Msg: "the process died when the violating case was re-executed:\n" + lastLines(stderr, 30), Case: res.Case}
	}
	if strings.HasPrefix(res.Sig, "pool-escape: ") {
		return res // already re-executed twice in fresh processes by the engine's differential attribution
	}
	if (r2 == nil || r2.Verdict != "violation") && res.Class == "data-race" {
		// A race report is evidence by itself (both stacks are in it, ThreadSanitizer has no false
		// positives), but whether it fires on a given execution is best-effort. Try a few more times.
		for i := 0; i < 3 && (r2 == nil || r2.Verdict != "violation"); i++ {
			r2, died, _ = d.runAlone(&j2)
			if died {
				break
			}
		}
		if (r2 == nil || r2.Verdict != "violation") && len(hist) > 0 && len(res.Case.PriorJobs) == 0 {
			// does it need what this worker had executed before (state left by an earlier build)?
			c3 := cloneCase(res.Case)
			c3.PriorJobs = hist
			j3 := *job
			j3.Case = c3
			if r3, died3, _ := d.runAlone(&j3); !died3 && r3 != nil && r3.Verdict == "violation" {
				r3.Case = c3
				r3.Sig += " (depends on earlier builds in the same process)"
				r3.Msg = fmt.Sprintf("the violation does not occur when the case is executed alone in a fresh process; it occurs after the %d runs the worker had executed before it (prior_jobs in the replay file)\n", len(hist)) + r3.Msg
				return r3
			}
		}
		if r2 == nil || r2.Verdict != "violation" {
			res.Msg = "(the race report was not observed again in 4 fresh executions of the recorded schedule; the report of the original run follows)\n" + res.Msg
			return res
		}
	}
	if (r2 == nil || r2.Verdict != "violation" || r2.Class != res.Class) && len(hist) > 0 && len(res.Case.PriorJobs) == 0 {
		// Does it depend on what this worker process executed before? Replay that history, then the case.
		c3 := cloneCase(res.Case)
		c3.PriorJobs = hist
		j3 := *job
		j3.Case = c3
		if r3, died3, _ := d.runAlone(&j3); !died3 && r3 != nil && r3.Verdict == "violation" && r3.Class == res.Class {
			r3.Case = c3
			r3.Sig += " (depends on earlier builds in the same process)"
			r3.Msg = fmt.Sprintf("the violation does not occur when the case is executed alone in a fresh process; it occurs after the %d runs the worker had executed before it (prior_jobs in the replay file)\n", len(hist)) + r3.Msg
			return r3
		}
	}
	if r2 == nil || r2.Verdict != "violation" || r2.Class != res.Class {
		got := "nil"
		if r2 != nil {
			got = r2.Verdict + "/" + r2.Class + ": " + r2.Msg
		}
		return &Result{ID: job.ID, Seed: res.Seed, Verdict: "harness-error",
			Msg: fmt.Sprintf("violation %s (%s) of seed %d did not reproduce in a fresh process (got %s)", res.Class, firstLine(res.Msg), res.Seed, got)}
	}
	r2.Case = res.Case
	return r2
}

func (d *driverCfg) minimise(eng Engine, v *Result) *Result {
	sh, ok := eng.(Shrinker)
	if !ok || v.Case == nil {
		return v
	}
	deadline := time.Now().Add(d.minimiseFor)
	cur := v
	tried := 0
	fresh := cur.Class == "process-death" || cur.Class == "hang" || cur.Class == "deadlock"
	n := d.workers
	// persistent workers evaluate candidates in parallel; classes that kill or wedge the
	// process get a fresh process per candidate
	var pool []*worker
	if !fresh {
		for i := 0; i < n; i++ {
			w, err := d.spawn()
			if err != nil {
				fatal2("cannot start worker: %v", err)
			}
			pool = append(pool, w)
		}
		defer func() {
			for _, w := range pool {
				w.kill()
			}
		}()
	}
	for time.Now().Before(deadline) {
		var cands []*Case
		if pj := cur.Case.PriorJobs; len(pj) > 0 {
			// the history first: halves, then single jobs (most recent kept longest)
			for _, cut := range []int{len(pj) / 2, len(pj) / 4, 1} {
				if cut < 1 {
					continue
				}
				for lo := 0; lo+cut <= len(pj); lo += cut {
					c := cloneCase(cur.Case)
					c.PriorJobs = append(append([]Job(nil), pj[:lo]...), pj[lo+cut:]...)
					cands = append(cands, c)
				}
				if len(cands) > 0 {
					break
				}
			}
		}
		if len(cands) == 0 || len(cur.Case.PriorJobs) <= 2 {
			for _, c := range sh.Shrinks(cur.Case) {
				c.PriorJobs = cur.Case.PriorJobs
				cands = append(cands, c)
			}
		}
		progress := false
		for lo := 0; lo < len(cands) && !progress && time.Now().Before(deadline); lo += n {
			hi := lo + n
			if hi > len(cands) {
				hi = len(cands)
			}
			results := make([]*Result, hi-lo)
			var wg sync.WaitGroup
			for i := lo; i < hi; i++ {
				wg.Add(1)
				go func(i int) {
					defer wg.Done()
					c := cands[i]
					job := &Job{ID: -1, Prop: d.prop, Seed: c.Seed, Tier: d.tier, Case: c}
					var res *Result
					var died bool
					var stderr string
					if fresh {
						res, died, stderr = d.runAlone(job)
					} else {
						w := pool[i-lo]
						res, died = w.do(job)
						if died {
							w.kill()
							nw, err := d.spawn()
							if err != nil {
								fatal2("cannot restart worker: %v", err)
							}
							pool[i-lo] = nw
						}
					}
					if died && cur.Class == "process-death" {
						results[i-lo] = &Result{Seed: c.Seed, Verdict: "violation", Class: "process-death", Sig: cur.Sig, Msg: "the process executing the build died:\n" + lastLines(stderr, 30), Case: c}
						return
					}
					if !died && res != nil && res.Verdict == "violation" && res.Class == cur.Class && res.Sig == cur.Sig {
						res.Case = c
						results[i-lo] = res
					}
				}(i)
			}
			wg.Wait()
			tried += hi - lo
			for _, r := range results {
				if r != nil {
					cur = r
					progress = true
					break
				}
			}
		}
		if !progress {
			break
		}
	}
	// the minimised case must reproduce in a fresh process, like any reported violation
	if cur != v {
		job := &Job{ID: -1, Prop: d.prop, Seed: cur.Case.Seed, Tier: d.tier, Case: cur.Case}
		res, died, _ := d.runAlone(job)
		okRepro := (died && cur.Class == "process-death") || (!died && res != nil && res.Verdict == "violation" && res.Class == cur.Class)
		if !okRepro {
			fmt.Println("minimisation: the minimised case did not reproduce in a fresh process; reporting the original case")
			cur = v
		}
	}
	fmt.Printf("minimisation: %d candidates tried\n", tried)
	return cur
}

type replayFile struct {
	Property  string `json:"property"`
	Class     string `json:"class"`
	Sig       string `json:"sig"`
	Msg       string `json:"msg"`
	BatchSeed uint64 `json:"verif_seed"`
	RunSeed   uint64 `json:"run_seed"`
	Tier      string `json:"tier"`
	Case      *Case  `json:"case"`
	Detail    any    `json:"detail,omitempty"`
}

func (d *driverCfg) writeReplay(v *Result) string {
	dir := filepath.Join(d.replays, d.prop)
	os.MkdirAll(dir, 0o755)
	p := filepath.Join(dir, fmt.Sprintf("%s-%d.json", sanitize(v.Class), v.Seed))
	rf := replayFile{Property: d.prop, Class: v.Class, Sig: v.Sig, Msg: v.Msg, BatchSeed: d.seed, RunSeed: v.Seed, Tier: d.tier, Case: v.Case}
	if len(v.Detail) > 0 {
		rf.Detail = v.Detail
	}
	b, _ := json.MarshalIndent(rf, "", " ")
	if err := os.WriteFile(p, b, 0o644); err != nil {
		fatal2("cannot write replay file: %v", err)
	}
	return p
}

func sanitize(s string) string {
	var sb strings.Builder
	for _, c := range s {
		if (c >= 'a' && c <= 'z') || (c >= 'A' && c <= 'Z') || (c >= '0' && c <= '9') || c == '-' {
			sb.WriteRune(c)
		} else {
			sb.WriteByte('_')
		}
	}
	return sb.String()
}

func replayMain() {
	fl := flag.NewFlagSet("replay", flag.ExitOnError)
	d := &driverCfg{}
	file := fl.String("file", "", "")
	fl.StringVar(&d.scratch, "scratch", "", "")
	fl.StringVar(&d.sites, "sites", "", "")
	fl.StringVar(&d.corpus, "corpus", "", "")
	fl.StringVar(&d.known, "known", "", "")
	fl.BoolVar(&d.race, "race", false, "")
	fl.DurationVar(&d.jobTimeout, "job-timeout", 60*time.Second, "")
	fl.Parse(os.Args[2:])
	b, err := os.ReadFile(*file)
	if err != nil {
		fatal2("%v", err)
	}
	var rf replayFile
	if err := json.Unmarshal(b, &rf); err != nil {
		fatal2("bad replay file: %v", err)
	}
	d.prop = rf.Property
	loadSiteTable(d.sites)
	if engines[d.prop] == nil {
		fatal2("no engine for %s", d.prop)
	}
	job := &Job{ID: 0, Prop: rf.Property, Seed: rf.RunSeed, Tier: rf.Tier, Case: rf.Case}
	res, died, stderr := d.runAlone(job)
	switch {
	case died && rf.Class == "process-death":
		fmt.Printf("reproduced: the process died\n%s\n", lastLines(stderr, 20))
		fmt.Printf("VIOLATION property=%s replay=%s\n", rf.Property, *file)
		os.Exit(1)
	case died:
		fmt.Printf("the process died (recorded class was %s)\n%s\n", rf.Class, lastLines(stderr, 20))
		fmt.Printf("VIOLATION property=%s replay=%s\n", rf.Property, *file)
		os.Exit(1)
	case res.Verdict == "violation":
		fmt.Printf("reproduced: class=%s (recorded %s)\n%s\n", res.Class, rf.Class, res.Msg)
		fmt.Printf("VIOLATION property=%s replay=%s\n", rf.Property, *file)
		os.Exit(1)
	case res.Verdict == "harness-error":
		fatal2("%s", res.Msg)
	default:
		fmt.Printf("not reproduced on this tree: verdict=%s\n", res.Verdict)
		os.Exit(0)
	}
}

func (d *driverCfg) writeEvidence(a *agg, wall time.Duration, nviol int, report []map[string]any) {
	if d.evidence == "" {
		return
	}
	ei := evidenceInfo[d.prop]
	cov := map[string]any{
		"evaluations":         a.evals,
		"distinct_nontrivial": len(a.nontrivial),
		"rule":                ei.rule,
		"samples":             a.samples,
		"runs_per_hour":       int(float64(a.evals) / wall.Hours()),
		"seeds_per_hour":      int(float64(a.evals) / wall.Hours()),
		"verif_seed":          d.seed,
		"run_seed_derivation": "run k uses SplitMix64(VERIF_SEED ^ (k+1)*0xd1342543de82ef95); every run is replayable on its own",
		"logical_steps":       a.steps,
		"simulated_time":      "the system has no clock, timer or deadline; simulated time is the logical step count (mediated file accesses + scheduler yields) reported in logical_steps",
		"counters":            a.counters,
		"skipped_runs":        a.skips,
		"foreign_events":      a.foreign,
		"known_findings_hit":  a.known,
		"runs_per_phase":      a.perMode,
		"workers":             d.workers,
		"components":          componentsFor(d.prop),
		"violations_reported": report,
		"cpu_seconds_in_runs": float64(a.wallUS) / 1e6,
	}
	if len(a.samples) == 0 {
		cov["samples"] = []any{"no run was sampled (batch too short)"}
	}
	ev := map[string]any{
		"property_id": d.prop,
		"tier":        d.tier,
		"seed":        d.seed,
		"level":       "exploration",
		"coverage":    cov,
		"assumptions": ei.assumptions,
		"wall_s":      wall.Seconds(),
		"violations":  nviol,
	}
	b, _ := json.MarshalIndent(ev, "", " ")
	os.MkdirAll(filepath.Dir(d.evidence), 0o755)
	if err := os.WriteFile(d.evidence, b, 0o644); err != nil {
		fatal2("cannot write evidence: %v", err)
	}
}

type evInfo struct {
	rule        string
	components  map[string]string
	assumptions []string
}

var evidenceInfo = map[string]evInfo{}

// componentsFor tailors the real/stub table to what a property's runs actually use.
func componentsFor(prop string) map[string]string {
	m := map[string]string{}
	for k, v := range stdComponents {
		m[k] = v
	}
	switch prop {
	case "C01", "C07", "C14":
		m["goroutine scheduler"] = "not involved: these runs are single-task (the seams are in place, no scheduler is attached)"
		m["sync.Pool"] = "stub: simulated pool, policy 'fresh only' (never reuses an object)"
		m["Go map iteration order"] = "stub: canonical (sorted) order in every run"
	case "C16":
		m["goroutine scheduler"] = "not involved: histories are single-task"
		m["kernel VFS"] = "real directory tree per worker, no faults injected in these runs"
	case "C06":
		m["goroutine scheduler"] = "bypassed in the 'concurrent with other builds' repetitions (seeded scheduler), not involved otherwise"
		m["kernel VFS"] = "real directory tree per worker; byte faults are applied to the files BEFORE the build (no mid-build faults in these runs); all versions of a file carry one mtime"
	case "C18":
		m["kernel VFS"] = "real directory tree per worker, no faults injected in these runs; file accesses are scheduling points"
		m["Go map iteration order"] = "stub: canonical (sorted) order in every run"
	}
	return m
}

var stdComponents = map[string]string{
	"jsight-api-core":           "real code from /repo's working tree; os/sync/map-range call sites routed through simrt by the instrumenter",
	"jsight-schema-core v0.2.0": "real code (module cache copy), instrumented the same way",
	"reggen, x/text, Go stdlib": "real, not instrumented",
	"kernel VFS":                "real directory tree per worker; its content and timing are decided by the fault plan inside the mediated calls",
	"sync.Mutex/RWMutex/Once":   "real primitives, called after the simulated scheduler's grant",
	"sync.Pool":                 "stub: simulated pool (policy isolating/adversarial/random/fresh-only) except where a run says 'real'",
	"Go map iteration order":    "stub: canonical order permuted by the run's map seed",
	"goroutine scheduler":       "bypassed in concurrent runs: one runnable task at a time, chosen by the seeded scheduler",
	"EACCES/EIO":                "stubbed syscall result (cannot be produced on a real directory as root)",
	"clock, network, timers":    "do not exist in the system",
}

// ---------- known findings ----------

type knownEntry struct {
	Property  string   `json:"property"`
	Status    string   `json:"status"` // known | fixed
	Class     string   `json:"class"`
	SigHas    string   `json:"sig_contains"`
	Site      string   `json:"site,omitempty"`       // seam site the finding is attributed to (map-order findings)
	PoolSites []string `json:"pool_sites,omitempty"` // Get/Put site prefixes of the pools a pool finding is about
	What      string   `json:"what"`
	Commit    string   `json:"commit,omitempty"`
}

func loadKnown(path, prop string) []knownEntry {
	var out []knownEntry
	if path == "" {
		return nil
	}
	f, err := os.Open(path)
	if err != nil {
		return nil
	}
	defer f.Close()
	sc := bufio.NewScanner(f)
	sc.Buffer(make([]byte, 1<<20), 1<<20)
	for sc.Scan() {
		line := strings.TrimSpace(sc.Text())
		if line == "" || strings.HasPrefix(line, "#") {
			continue
		}
		var k knownEntry
		if err := json.Unmarshal([]byte(line), &k); err != nil {
			fatal2("known findings file: %v", err)
		}
		if k.Property == prop && k.Status == "known" { // "fixed" entries suppress nothing
			out = append(out, k)
		}
	}
	return out
}

var workerKnown []knownEntry

func knownSite(prop, site string) bool {
	for _, k := range workerKnown {
		if k.Property == prop && k.Site != "" && k.Site == site {
			return true
		}
	}
	return false
}

func matchKnown(known []knownEntry, r *Result) string {
	for _, k := range known {
		if (k.Class == r.Class || k.Class == "*") && k.SigHas != "" && strings.Contains(r.Sig, k.SigHas) {
			return k.What
		}
	}
	return ""
}

func sortedSet(m map[string]bool) []string {
	var s []string
	for k := range m {
		s = append(s, k)
	}
	sort.Strings(s)
	return s
}
