package main

import (
	"encoding/json"
	"fmt"
	"path"
	"path/filepath"
	"regexp"
	"strings"

	"simrt"
)

// C06 - same project, same result.
//
// Run: one project (valid, rejected corpus file, or made inconsistent by several independent
// defects / stored-byte faults applied before the build) is built and serialised R times;
// only the environment differs between repetitions: the map-iteration-order seam (another
// permutation, another subset of sites), prior history in the process (other projects built
// before), a fresh process, the pool reuse policy, ambient values (clock, global rand, pid).
// Oracle: all repetitions yield byte-identical observations (catalog JSON / OpenAPI JSON /
// title, or message+file+index+line+column+quote+trace of the error, or the same panic value).

type c06Engine struct{}

func init() {
	engines["C06"] = c06Engine{}
	evidenceInfo["C06"] = evInfo{
		rule: "one evaluation = one project observed under R=3..5 environments (rep 0 canonical; others: map order permuted at all / a random subset of the 21 instrumented map-range sites, reversed order, " +
			"0-2 unrelated prior builds in the process, one repetition in a fresh OS process, pool policy, ambient seed). Projects: generator (valid), generator + 2..4 independent defect blocks of 27 kinds, " +
			"corpus files accepted and rejected, valid projects with 1-3 stored-byte faults (flip/torn/zeroed sector/misdirected sector) applied before the build. " +
			"non-trivial = at least one repetition permuted a map site that saw >= 2 keys, or ran in a fresh process; distinct = distinct (project hash, set of permuted sites with >= 2 keys, fresh?) triples",
		components: stdComponents,
		assumptions: []string{
			"the observation of a repetition is: build outcome (all error fields and Error()), and for accepted projects ToJson, ToOpenAPIJson (a panic is recorded as a value) and Title",
			"map order is simulated per site as a pure function of (seed, site, number of keys): two visits of one site with the same key count in one repetition see the same permutation",
			"sites inside jsight-schema-core are permuted too",
		},
	}
}

func (c06Engine) Plan(tier string) []Phase { return []Phase{{Mode: "random", Share: 1}} }

// damageOneBlock: a save that went wrong in the middle of one top-level block - its body loses
// the closing line, or one of its rule names is mangled. Unlike a random bit flip this nearly
// always makes exactly that block unparsable while its name stays known to the rest.
func damageOneBlock(p *Project, r *Rand) bool {
	type loc struct{ fi, start, end int }
	var locs []loc
	for fi, f := range p.Files {
		off := 0
		bl := splitBlocks(string(f.Data))
		for _, b := range bl {
			if strings.HasPrefix(b, "TYPE ") || strings.HasPrefix(b, "ENUM ") || strings.HasPrefix(b, "GET ") || strings.HasPrefix(b, "POST ") || strings.HasPrefix(b, "URL ") {
				locs = append(locs, loc{fi, off, off + len(b)})
			}
			off += len(b)
		}
	}
	if len(locs) == 0 {
		return false
	}
	l := locs[r.Intn(len(locs))]
	if r.Chance(3, 4) {
		// mostly user types: other blocks refer to them by name, so a broken one is looked at from
		// several places of the builder
		var tl []loc
		for _, x := range locs {
			if strings.HasPrefix(string(p.Files[x.fi].Data[x.start:x.end]), "TYPE ") {
				tl = append(tl, x)
			}
		}
		if len(tl) > 0 {
			l = tl[r.Intn(len(tl))]
		}
	}
	f := &p.Files[l.fi]
	block := string(f.Data[l.start:l.end])
	if strings.HasPrefix(block, "TYPE ") && r.Chance(3, 4) {
		// damage INSIDE the schema that keeps braces balanced: the document still scans, the type's
		// schema fails when it is loaded or checked - i.e. when another type looks at it
		ll := strings.SplitAfter(block, "\n")
		var cand []int
		for i, ln := range ll {
			if i > 0 && strings.Contains(ln, "\":") {
				cand = append(cand, i)
			}
		}
		if len(cand) > 0 {
			i := cand[r.Intn(len(cand))]
			ln := ll[i]
			switch r.Intn(4) {
			case 0: // unknown rule added
				ln = strings.TrimRight(ln, "\r\n")
				if strings.Contains(ln, "//") {
					ln = strings.Replace(ln, "// {", "// {nosuchrule: 1, ", 1)
					if !strings.Contains(ln, "nosuchrule") {
						ln += " {nosuchrule: 1}"
					}
				} else {
					ln += " // {nosuchrule: 1}"
				}
				ln += "\n"
			case 1: // a value becomes garbage
				if j := strings.Index(ln, "\": "); j >= 0 {
					ln = ln[:j+3] + "#" + ln[j+3:]
				}
			case 2: // the comma between two properties is lost
				ln = strings.Replace(ln, ",", " ", 1)
			default: // a key loses its closing quote
				ln = strings.Replace(ln, "\":", ":", 1)
			}
			ll[i] = ln
			block = strings.Join(ll, "")
			f.Data = []byte(string(f.Data[:l.start]) + block + string(f.Data[l.end:]))
			p.Features = append(p.Features, "prefault:damaged-type-schema")
			return true
		}
	}
	switch r.Intn(3) {
	case 0: // the last non-empty line is lost
		t := strings.TrimRight(block, "\r\n \t")
		if i := strings.LastIndexByte(t, '\n'); i > 0 {
			block = t[:i+1]
		}
	case 1: // a rule name is mangled
		for _, rn := range []string{"{min:", "{minLength:", "{optional:", "{enum:", "{allOf:"} {
			if i := strings.Index(block, rn); i >= 0 {
				block = block[:i+2] + "x" + block[i+2:]
				break
			}
		}
	default: // an opening brace becomes a bracket
		if i := strings.IndexByte(block, '{'); i >= 0 {
			block = block[:i] + "[" + block[i+1:]
		}
	}
	f.Data = []byte(string(f.Data[:l.start]) + block + string(f.Data[l.end:]))
	p.Features = append(p.Features, "prefault:damaged-block")
	return true
}

func corruptBeforeBuild(p *Project, r *Rand) {
	p.Kind = "pre-build-byte-faults"
	p.Valid = false
	if r.Chance(2, 3) && damageOneBlock(p, r) {
		return
	}
	for i := 0; i < r.Range(1, 3); i++ {
		f := &p.Files[r.Intn(len(p.Files))]
		if len(f.Data) == 0 {
			continue
		}
		switch r.Intn(4) {
		case 0:
			f.Data[r.Intn(len(f.Data))] ^= byte(1 << r.Intn(8))
			p.Features = append(p.Features, "prefault:flip")
		case 1:
			f.Data = f.Data[:r.Intn(len(f.Data))]
			p.Features = append(p.Features, "prefault:torn")
		case 2:
			o, n := r.Intn(len(f.Data)), r.Pick2(4, 16, 64)
			for j := o; j < o+n && j < len(f.Data); j++ {
				f.Data[j] = 0
			}
			p.Features = append(p.Features, "prefault:lost-zero")
		default:
			g := &p.Files[r.Intn(len(p.Files))]
			if len(g.Data) == 0 {
				continue
			}
			o, n, d := r.Intn(len(f.Data)), r.Pick2(4, 16, 64), r.Intn(len(g.Data))
			src := append([]byte(nil), f.Data...)
			for j := 0; j < n && o+j < len(src) && d+j < len(g.Data); j++ {
				g.Data[d+j] = src[o+j]
			}
			p.Features = append(p.Features, "prefault:misdirect")
		}
	}
}

var addrRE = regexp.MustCompile(`0x[0-9a-f]{6,16}`)

var pathLineRE = regexp.MustCompile(`(?m)^([ \t]*(?:GET|POST|PUT|PATCH|DELETE|URL)[ \t]+)(/[^ \t\r\n]*)`)

// spellDifferently rewrites the URL paths of a project (and, sometimes, the case of its @names).
func spellDifferently(p *Project, r *Rand) {
	for i := range p.Files {
		f := &p.Files[i]
		if strings.HasSuffix(f.Path, "/") {
			continue
		}
		s := pathLineRE.ReplaceAllStringFunc(string(f.Data), func(m string) string {
			sm := pathLineRE.FindStringSubmatch(m)
			path := sm[2]
			switch r.Pick2(0, 0, 1, 1, 2, 3) { // each path on its own
			case 0:
				if strings.HasSuffix(path, "/") && len(path) > 1 {
					path = strings.TrimSuffix(path, "/")
				} else {
					path += "/"
				}
			case 1:
				path = "/" + path
			case 2:
				path = strings.ToUpper(path)
			default:
				path = strings.Replace(path[:1]+strings.Replace(path[1:], "/", "//", 1), "///", "//", -1) + "/"
			}
			return sm[1] + path
		})
		f.Data = []byte(s)
	}
	p.Features = append(p.Features, "prior:spelled-differently")
}

func (r *Rand) Pick2(a ...int) int { return a[r.Intn(len(a))] }

var c06BanWords = []string{"TAG", "ENUM", "Description", "SERVER", "TYPE", "Query"}

func (c06Engine) Gen(job *Job) *Case {
	r := NewRand(job.Seed)
	c := &Case{Prop: "C06", Seed: job.Seed, Entry: "path"}
	switch k := r.Intn(100); {
	case k < 25:
		c.Project = genValid(r.Fork())
	case k < 65:
		competingOnly = r.Chance(3, 4)
		c.Project = genMultiDefect(r.Fork())
		competingOnly = false
		if r.Chance(2, 5) {
			// one defect only: nothing masks it, and a message that lists or suggests names
			// (candidates taken from a map) shows its order dependence on a single error
			c.Project = genSingleDefect(r.Fork())
		}
	case k < 85:
		if p := corpusProject(r.Intn(1 << 20)); p != nil && len(p.Files) > 0 {
			c.Project = p
		} else {
			c.Project = genMultiDefect(r.Fork())
		}
	default:
		c.Project = genValid(r.Fork())
		corruptBeforeBuild(c.Project, r)
	}
	if c.Project.Name == "" {
		c.Project.Name = "gen-" + projectHash(c.Project)
	}
	if r.Chance(1, 4) {
		c.Entry = "mem"
	}
	if r.Chance(1, 5) {
		// the observed build bans a directive kind; the option VALUE is one per keyword per process
		// (see bannedOption) and earlier builds of the process have used it too, alone or together
		// with a second one (seeded change C06-u)
		c.Banned = []string{c06BanWords[r.Intn(len(c06BanWords))]}
	}
	n := r.Range(3, 5)
	if job.Tier == "thorough" && r.Chance(1, 3) {
		n = r.Range(5, 8)
	}
	c.Reps = append(c.Reps, Rep{})
	fresh := false
	for i := 1; i < n; i++ {
		e := randEnv(r)
		if e.MapMode == 0 && r.Chance(2, 3) {
			e.MapMode, e.MapSeed = 1, r.U64()
		}
		if e.MapMode == 1 && len(wenv.mapSites) > 0 && r.Chance(1, 3) {
			// permute a random subset of the sites only
			for _, s := range wenv.mapSites {
				if r.Chance(1, 2) {
					e.MapSites = append(e.MapSites, s)
				}
			}
			if e.MapSites == nil {
				e.MapSites = []string{wenv.mapSites[r.Intn(len(wenv.mapSites))]}
			}
		}
		e.Prior = 0
		if r.Chance(1, 2) {
			e.Prior = r.Range(1, 3)
		}
		if !fresh && i == n-1 && r.Chance(1, 10) {
			// a fresh process under the canonical map order: isolates "new process" from "other map order"
			e.Fresh = true
			e.MapMode, e.MapSites = 0, nil
			fresh = true
		}
		if !fresh && i == n-1 && r.Chance(1, 4) {
			// a fresh process whose FIRST build is a near-variant of the observed project (its sibling
			// spelling): in this worker the reference build has long filled every process-wide memo
			// with the project's own spelling - only a new process lets the sibling come first
			e.Fresh, e.Sibling = true, true
			e.Prior = r.Range(1, 2)
			e.MapMode, e.MapSites = 0, nil
			fresh = true
		}
		if i == 2 && r.Chance(1, 8) {
			// soak repetition: small projects many times, larger ones a few dozen times
			k := r.Pick2(10, 20, 50)
			sz := 0
			for _, f := range c.Project.Files {
				sz += len(f.Data)
			}
			if sz < 2500 && r.Chance(1, 3) {
				k = r.Pick2(300, 1000)
				if job.Tier == "thorough" {
					k = r.Pick2(1000, 3000)
				}
			}
			e = Env{Repeat: k}
		}
		concOdds := 7
		if len(c.Project.Files) >= 3 {
			concOdds = 3 // several files: whatever is kept per file name or per include is what concurrent builds could share
		}
		if !fresh && i == 1 && r.Chance(1, concOdds) {
			// one repetition concurrently with other builds, canonical map order
			e = Env{Ambient: e.Ambient, Conc: r.Range(1, 2), ConcSeed: r.U64()}
		}
		c.Reps = append(c.Reps, Rep{Env: e})
	}
	if c.Project.Kind != "corpus" && r.Chance(1, 4) {
		// the working directory of the process is ambient too: name the root by its absolute path
		// and build from inside the project, from above it, from one of its subdirectories
		c.RootAs = 5
		dirs := []string{projDir, path.Dir(projDir)}
		for _, f := range c.Project.Files {
			if d := path.Dir(f.Path); d != "." && !strings.HasSuffix(f.Path, "/") {
				dirs = append(dirs, projDir+"/"+d)
			}
		}
		for i := 1; i < len(c.Reps); i++ {
			e := &c.Reps[i].Env
			e.Fresh = false // a fresh process runs in another directory: the absolute names would differ
			if e.Conc == 0 && r.Chance(2, 3) {
				e.Cwd = dirs[r.Intn(len(dirs))]
			}
		}
	}
	return c
}

// observe builds and serialises the (already materialised) project under env and returns the
// canonical text of everything observable.
func observe(c *Case, e Env, seed uint64) (text string, permuted []string) {
	simrt.SetOSHook(nil)
	// one pool session for the prior history and the observed build: what earlier builds leave
	// in a pool is there for the next one, like in a long-lived process
	canonicalEnv()
	pol := e.Pool
	if pol == simrt.PoolReal {
		pol = simrt.PoolIsolating
	}
	simrt.PoolSimBegin(simrt.PoolConfig{Policy: pol}, seed)
	if e.Prior > 0 {
		pr := NewRand(seed ^ 0x5151)
		for i := 0; i < e.Prior; i++ {
			var q *Project
			kind := pr.Intn(5)
			if e.Sibling && i == 0 {
				kind = 2
			}
			switch kind {
			case 0:
				q = genValid(pr.Fork())
			case 1:
				q = genMultiDefect(pr.Fork())
			case 2:
				// a near-variant of the SAME project: the same paths and names spelled a little
				// differently (trailing or doubled slashes, another case) - whatever is remembered
				// under a normalised key meets its sibling in the observed build
				q = c.Project.Clone()
				spellDifferently(q, pr)
			default:
				// an older, broken version of the SAME project (the edit-build-fix cycle of an editor
				// or a server that rebuilds on save): same names, some bytes damaged
				q = c.Project.Clone()
				corruptBeforeBuild(q, pr)
			}
			// half of the prior builds happen at the very paths of the observed project (the files
			// are then put back): state keyed by path survives into the observed build
			dir := "prior"
			if pr.Chance(1, 2) {
				dir = projDir
			}
			must(MaterialiseAt(dir, q.Files))
			var pb []string
			if len(c.Banned) > 0 && pr.Chance(2, 3) {
				pb = []string{c.Banned[0]}
				if other := c06BanWords[pr.Intn(len(c06BanWords))]; other != c.Banned[0] {
					pb = append(pb, other)
					if pr.Chance(1, 3) {
						pb[0], pb[1] = pb[1], pb[0]
					}
				}
			}
			if o := BuildPath(filepath.Join(dir, q.Root), pb...); o.OK {
				call(o.japi, "ToJson")
				call(o.japi, "ToOpenAPIJson")
			}
			if dir == projDir {
				must(Materialise(c.Project.Files))
			}
		}
	}
	applyEnv(e)
	simrt.CountMapVisits(true)
	var sb strings.Builder
	o := buildCase(c)
	sb.WriteString("build: " + o.Text() + "\n")
	if o.OK {
		for _, op := range []string{"ToJson", "ToOpenAPIJson", "Title"} {
			sb.WriteString(op + ": " + call(o.japi, op).Text() + "\n")
		}
	}
	if e.MapMode != 0 {
		only := map[string]bool{}
		for _, s := range e.MapSites {
			only[s] = true
		}
		for _, s := range simrt.MapSitesVisited() {
			if e.MapSites == nil || only[s] {
				permuted = append(permuted, s)
			}
		}
	}
	simrt.CountMapVisits(false)
	canonicalEnv()
	return sb.String(), permuted
}

// observeConc: the observed build and serialisation run as one task of the seeded scheduler
// while e.Conc other tasks build and serialise unrelated projects ("concurrently with other
// builds"). Pools are isolating, so the dependency's pool-escape finding (C18) stays out.
func observeConc(c *Case, e Env, seed uint64) (string, string) {
	canonicalEnv()
	simrt.SetOSHook(nil)
	applyEnv(Env{MapMode: e.MapMode, MapSeed: e.MapSeed, MapSites: e.MapSites, Ambient: e.Ambient, Pool: simrt.PoolIsolating})
	pr := NewRand(seed ^ 0xc0c0)
	var others []*Project
	for i := 0; i < e.Conc; i++ {
		q := genValid(pr.Fork())
		if pr.Chance(1, 3) {
			q = genMultiDefect(pr.Fork())
		}
		must(MaterialiseAt(fmt.Sprintf("conc%d", i), q.Files))
		others = append(others, q)
	}
	var text string
	fns := []func(){func() {
		var sb strings.Builder
		o := buildCase(c)
		sb.WriteString("build: " + o.Text() + "\n")
		if o.OK {
			for _, op := range []string{"ToJson", "ToOpenAPIJson", "Title"} {
				sb.WriteString(op + ": " + call(o.japi, op).Text() + "\n")
			}
		}
		text = sb.String()
	}}
	for i := range others {
		i := i
		fns = append(fns, func() {
			if o := BuildPath(filepath.Join(fmt.Sprintf("conc%d", i), others[i].Root)); o.OK {
				call(o.japi, "ToJson")
				call(o.japi, "ToOpenAPIJson")
			}
		})
	}
	if pr.Chance(2, 3) {
		// one of the other builds is a second build of the SAME project, at the same paths (two
		// requests for the same document): whatever is shared per file name is shared now
		fns = append(fns, func() {
			if o := buildCase(c); o.OK {
				call(o.japi, "ToJson")
			}
		})
		if pr.Chance(1, 2) {
			fns = append(fns, func() { buildCase(c) })
		}
	}
	raceDelta()
	rep := simrt.Run(simrt.Config{Seed: e.ConcSeed, Strategy: int(e.ConcSeed % simrt.NumStrategies), SwitchDen: 8, ChangePoints: 3, Horizon: 2000, Pool: simrt.PoolConfig{Policy: simrt.PoolIsolating}}, fns...)
	foreign := ""
	if rep.Deadlock != "" {
		foreign = "C18:deadlock"
		text = "DEADLOCK"
	}
	if rd := raceDelta(); rd != "" {
		foreign = "C18:data-race"
	}
	canonicalEnv()
	return text, foreign
}

func (c06Engine) Exec(c *Case, job *Job) *Result {
	res := &Result{}
	must(Materialise(c.Project.Files))
	if job.Rep > 0 {
		// fresh-process repetition: observe one environment, hand the text back
		e := c.Reps[job.Rep-1].Env
		e.Fresh = false
		text, perm := observe(c, e, c.Seed+uint64(job.Rep))
		res.Blob = []byte(text) // not as a JSON string: invalid UTF-8 in an error text would come back as U+FFFD
		res.Sig = strings.Join(perm, ",")
		return res
	}
	res.count("project:"+c.Project.Kind, 1)
	for _, f := range c.Project.Features {
		if strings.HasPrefix(f, "defect:") || strings.HasPrefix(f, "prefault:") {
			res.count(f, 1)
		}
	}
	var ref string
	var knownHit *Result
	type repLog struct {
		Env      Env      `json:"env"`
		Permuted []string `json:"permuted_sites_with_2+_keys"`
		Hash     string   `json:"observation_hash"`
		First    string   `json:"observation_first_line"`
	}
	var rl []repLog
	keyParts := []string{projectHash(c.Project)}
	for i, rep := range c.Reps {
		var text string
		var perm []string
		if rep.Env.Fresh {
			j2 := &Job{ID: job.ID, Prop: "C06", Seed: c.Seed, Tier: job.Tier, Case: c, Rep: i + 1}
			r2, err := runFresh(j2)
			if _, died := err.(*childDeath); died {
				// the project kills the process that builds it (C01's business, e.g. K8): nothing to compare
				res.count("foreign:fresh-process-died", 1)
				res.Foreign = append(res.Foreign, "C01:process-death")
				must(Materialise(c.Project.Files))
				continue
			}
			if err != nil {
				res.Verdict = "harness-error"
				res.Msg = err.Error()
				return res
			}
			text = string(r2.Blob)
			if r2.Sig != "" {
				perm = strings.Split(r2.Sig, ",")
			}
			if rep.Env.MapMode != 0 && text != ref {
				// is the difference explained by the map order alone? then attribute it there
				e := rep.Env
				e.Fresh = false
				if local, _ := observe(c, e, c.Seed+uint64(i+1)); local == text {
					rep.Env.Fresh = false
				}
			}
			res.count("env:fresh-process", 1)
			res.NonTrivial = true
			keyParts = append(keyParts, "fresh")
			must(Materialise(c.Project.Files)) // the child used its own directory; ours is untouched, but keep the invariant explicit
		} else if rep.Env.Repeat > 1 {
			// soak: the same project, over and over, in one process (a resource that is used up, a
			// table that fills, a counter that wraps only shows after many builds)
			canonicalEnv()
			simrt.SetOSHook(nil)
			text = ""
			for k := 0; k < rep.Env.Repeat; k++ {
				var sb strings.Builder
				o := buildCase(c)
				sb.WriteString("build: " + o.Text() + "\n")
				if o.OK {
					sb.WriteString("ToJson: " + call(o.japi, "ToJson").Text() + "\n")
					sb.WriteString("ToOpenAPIJson: " + call(o.japi, "ToOpenAPIJson").Text() + "\n")
					sb.WriteString("Title: " + call(o.japi, "Title").Text() + "\n")
				}
				if k == 0 {
					text = sb.String()
				} else if sb.String() != text {
					text = sb.String()
					res.count("soak:first-differing-iteration", k)
					break
				}
			}
			res.count("env:soak-builds", rep.Env.Repeat)
			res.NonTrivial = true
			keyParts = append(keyParts, fmt.Sprintf("soak%d", rep.Env.Repeat))
		} else if rep.Env.Conc > 0 {
			var foreign string
			// one concurrent repetition is one schedule; a project of several files gets up to four
			// (what concurrent builds could share is kept per file name or per INCLUDE, and whether it
			// shows depends on where the builds overlap): the first schedule that differs is reported
			tries := 1
			if len(c.Project.Files) >= 3 {
				tries = 4
			}
			for k := 0; k < tries; k++ {
				e := rep.Env
				e.ConcSeed += uint64(k) * 0x9e3779b97f4a7c15
				text, foreign = observeConc(c, e, c.Seed+uint64(i+1)+uint64(k)<<32)
				if text != ref || foreign != "" {
					if k > 0 {
						c.Reps[i].Env.ConcSeed = e.ConcSeed // what the replay has to use
					}
					break
				}
			}
			res.count("env:concurrent-with-other-builds", 1)
			res.NonTrivial = true
			keyParts = append(keyParts, "conc")
			if foreign != "" {
				res.Foreign = append(res.Foreign, foreign)
				if text == "DEADLOCK" {
					res.Verdict = "violation"
					res.Class, res.Sig, res.Msg = "deadlock", "deadlock", "deadlock while building concurrently with other builds"
					break
				}
			}
		} else {
			text, perm = observe(c, rep.Env, c.Seed+uint64(i+1))
		}
		res.count(fmt.Sprintf("env:map-mode-%d", rep.Env.MapMode), 1)
		res.count(fmt.Sprintf("env:pool-policy-%d", rep.Env.Pool), 1)
		if rep.Env.Prior > 0 {
			res.count("env:prior-builds", rep.Env.Prior)
		}
		if len(perm) > 0 {
			res.NonTrivial = true
			res.count("probe:map-sites-permuted-with-2+keys", len(perm))
			keyParts = append(keyParts, strings.Join(perm, "+"))
			for _, s := range perm {
				res.count("mapsite:"+s, 1)
			}
		}
		rl = append(rl, repLog{rep.Env, perm, fmt.Sprintf("%016x", fnv64(text)), firstLine(text)})
		if i == 0 {
			ref = text
			if strings.HasPrefix(text, "build: ERR") {
				res.count("outcome:error", 1)
			} else if strings.HasPrefix(text, "build: OK") {
				res.count("outcome:catalog", 1)
			} else {
				res.count("outcome:other", 1)
				res.Foreign = append(res.Foreign, "C01:"+firstWord(strings.TrimPrefix(firstLine(text), "build: ")))
			}
			continue
		}
		if text != ref {
			what := "map-order"
			switch {
			case rep.Env.Repeat > 1:
				what = "repeated-builds-in-one-process"
			case rep.Env.Conc > 0:
				what = "concurrent-builds"
			case rep.Env.Fresh:
				what = "fresh-process"
			case rep.Env.MapMode == 0 && rep.Env.Prior > 0:
				what = "prior-history"
			case rep.Env.MapMode == 0:
				what = "pool-ambient-or-internal-goroutine-schedule"
			}
			if rep.Env.Cwd != "" {
				// is the working directory alone responsible? same environment from the worker's own directory
				e2 := rep.Env
				e2.Cwd = ""
				if t2, _ := observe(c, e2, c.Seed+uint64(i+1)); t2 == ref {
					what = "working-directory " + rep.Env.Cwd
					rep.Env.MapMode, rep.Env.Prior = 0, 0
				}
			}
			if rep.Env.Prior > 0 && !rep.Env.Fresh && rep.Env.MapMode != 0 && rep.Env.Conc == 0 {
				// is the prior history alone responsible? same environment without the prior builds
				e2 := rep.Env
				e2.Prior = 0
				if t2, _ := observe(c, e2, c.Seed+uint64(i+1)); t2 == ref {
					what = "prior-history"
					rep.Env.MapMode = 0
				}
			}
			if rep.Env.MapMode != 0 && !rep.Env.Fresh && rep.Env.Conc == 0 && rep.Env.Repeat <= 1 && what == "map-order" {
				// does it differ even under the canonical map order? then the map order is not the cause:
				// what is left is the ambient seed, i.e. clock/rand/pid answers and the interleaving of
				// goroutines the code under test starts itself
				e0 := rep.Env
				e0.MapMode, e0.MapSites, e0.Prior = 0, nil, 0
				if t0, _ := observe(c, e0, c.Seed+uint64(i+1)); t0 != ref {
					what = "ambient-or-internal-goroutine-schedule"
					rep.Env.MapMode = 0
				}
			}
			comp := diffComponent(ref, text)
			sites := "all"
			if rep.Env.MapSites != nil {
				sites = strings.Join(rep.Env.MapSites, ",")
			}
			sig := comp + " under " + what
			if addrRE.ReplaceAllString(ref, "0xADDR") == addrRE.ReplaceAllString(text, "0xADDR") {
				// the two observations are equal up to hexadecimal addresses: something prints a pointer.
				// The signature names the text in front of the first address, so that a known finding
				// about one message does not hide another one
				loc := addrRE.FindStringIndex(text)
				from := loc[0] - 60
				if from < 0 {
					from = 0
				}
				ctx := text[from:loc[0]]
				if i := strings.LastIndexByte(ctx, '\n'); i >= 0 {
					ctx = ctx[i+1:]
				}
				sig = comp + " differs-only-in-addresses after: " + ctx
			}
			known := false
			if rep.Env.MapMode != 0 && !rep.Env.Fresh && rep.Env.Conc == 0 && rep.Env.Repeat <= 1 {
				// Attribution: which single map site, permuted alone, makes the observation differ?
				culprits, knownOnly, residual := c06Culprits(c, rep.Env, c.Seed+uint64(i+1), ref, perm)
				sig += " culprits=[" + strings.Join(culprits, ",") + "]"
				if knownOnly && !residual {
					known = true
				} else if knownOnly && residual {
					sig += "+residual"
				}
			}
			msg := fmt.Sprintf("repetition %d of the same project (environment: map mode %d seed %d sites %s, prior builds %d, fresh process %v, pool policy %d, working directory %q) differs from repetition 0 in %s [%s]\n%s",
				i, rep.Env.MapMode, rep.Env.MapSeed, sites, rep.Env.Prior, rep.Env.Fresh, rep.Env.Pool, rep.Env.Cwd, comp, sig, firstDiff(ref, text))
			if known {
				// a recorded finding explains this repetition completely; keep looking at the others
				if knownHit == nil {
					knownHit = &Result{Class: "nondeterministic", Sig: sig, Msg: msg}
				}
				res.count("known-finding-hit", 1)
				continue
			}
			res.violate("nondeterministic", sig, msg)
			break
		}
	}
	if res.Verdict != "violation" && knownHit != nil {
		res.violate(knownHit.Class, knownHit.Sig, knownHit.Msg)
	}
	res.Steps = len(c.Reps)
	res.Key = strings.Join(keyParts, "|")
	if job.Sample || res.Verdict == "violation" {
		res.Detail, _ = json.Marshal(map[string]any{"repetitions": rl})
	}
	return res
}

// c06Culprits finds the map sites that, permuted alone, make the observation differ from
// the reference. knownOnly: every culprit is the site of a recorded known finding.
// residual: with all culprits left in canonical order the observation still differs.
func c06Culprits(c *Case, e Env, seed uint64, ref string, perm []string) (culprits []string, knownOnly, residual bool) {
	e.Prior = 0
	var rest []string
	for _, s := range perm {
		e1 := e
		e1.MapSites = []string{s}
		if t, _ := observe(c, e1, seed); t != ref {
			culprits = append(culprits, s)
		} else {
			rest = append(rest, s)
		}
	}
	if len(culprits) == 0 {
		return []string{"combination"}, false, false
	}
	knownOnly = true
	for _, s := range culprits {
		if !knownSite("C06", s) {
			knownOnly = false
		}
	}
	if knownOnly {
		e2 := e
		e2.MapSites = rest
		if len(rest) == 0 {
			e2.MapMode = 0
		}
		if t, _ := observe(c, e2, seed); t != ref {
			residual = true
		}
	}
	return culprits, knownOnly, residual
}

func diffComponent(a, b string) string {
	la, lb := strings.Split(a, "\n"), strings.Split(b, "\n")
	for i := 0; i < len(la) && i < len(lb); i++ {
		if la[i] != lb[i] {
			w := la[i]
			if j := strings.IndexByte(w, ':'); j >= 0 {
				w = w[:j]
			}
			if w == "build" {
				if strings.HasPrefix(la[i], "build: ERR") && strings.HasPrefix(lb[i], "build: ERR") {
					return "build-error"
				}
				return "build-outcome"
			}
			return w
		}
	}
	return "length"
}

func (c06Engine) Shrinks(c *Case) []*Case {
	var out []*Case
	// fewer repetitions (always keep rep 0)
	for i := len(c.Reps) - 1; i >= 1; i-- {
		if len(c.Reps) <= 2 {
			break
		}
		d := cloneCase(c)
		d.Reps = append(d.Reps[:i], d.Reps[i+1:]...)
		out = append(out, d)
	}
	for i := 1; i < len(c.Reps); i++ {
		e := c.Reps[i].Env
		// simpler environments
		if e.Fresh {
			d := cloneCase(c)
			d.Reps[i].Env.Fresh = false
			out = append(out, d)
		}
		if e.Prior > 0 {
			d := cloneCase(c)
			d.Reps[i].Env.Prior = 0
			out = append(out, d)
		}
		if e.Repeat > 2 {
			d := cloneCase(c)
			d.Reps[i].Env.Repeat = e.Repeat / 2
			out = append(out, d)
		}
		if e.Pool != 0 || e.DropAll {
			d := cloneCase(c)
			d.Reps[i].Env.Pool, d.Reps[i].Env.DropAll = 0, false
			out = append(out, d)
		}
		if e.MapMode != 0 {
			d := cloneCase(c)
			d.Reps[i].Env.MapMode, d.Reps[i].Env.MapSites = 0, nil
			out = append(out, d)
			// restrict the permuted sites: halves first, then single sites - the survivor names the culprit
			sites := e.MapSites
			if sites == nil {
				sites = wenv.mapSites
			}
			if len(sites) > 1 {
				h := len(sites) / 2
				for _, part := range [][]string{sites[:h], sites[h:]} {
					d := cloneCase(c)
					d.Reps[i].Env.MapSites = append([]string(nil), part...)
					out = append(out, d)
				}
			}
		}
	}
	for _, p := range shrinkProjects(c.Project) {
		d := cloneCase(c)
		d.Project = p
		out = append(out, d)
	}
	return out
}
