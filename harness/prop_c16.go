package main

import (
	"encoding/json"
	"fmt"
	"strings"

	"simrt"
)

// C16 - serialising is repeatable and does not change the catalog.
//
// Run: build a project once, then execute a generated history of accessor calls on that one
// instance while the environment changes between calls (map iteration order, pool reuse
// policy, a GC cycle emptying the pools, ambient values). Oracle: a stateless reference model -
// for every accessor the reference value is what that accessor returns as the FIRST call on a
// FRESHLY built instance of the same project under the canonical environment. Every call of
// the history must equal its reference, whatever was called before.

type c16Engine struct{}

func init() {
	engines["C16"] = c16Engine{}
	evidenceInfo["C16"] = evInfo{
		rule: "one evaluation = one project built once + one generated call history (2-10 calls over ToJson, ToJsonIndent, ToOpenAPIJson, ToOpenAPIJsonIndent, Title; " +
			"environment re-drawn before each call: map order canonical/permuted/reversed, pool policy real/isolating/LIFO-reuse/fresh-only, pool drop, ambient seed). " +
			"Projects: seeded generator (TYPE/ENUM/regex/allOf/or/any/URL/methods/JSON-RPC/MACRO/INCLUDE) and the repository corpus. " +
			"Phase 'enum' first runs EVERY call sequence up to length 3 (quick, 6 seed projects) / 5 (thorough, 20 seed projects) under the canonical environment. " +
			"non-trivial = project accepted and history has >= 2 calls; distinct = distinct (project content hash, call sequence) pairs",
		components: stdComponents,
		assumptions: []string{
			"the reference value of an accessor is its first call on a freshly built instance under canonical map order and the real sync.Pool",
			"a panic of the OpenAPI exporter is a result like any other here (it has to repeat); that it panics at all is C17's business and is only counted",
			"histories are single-task; concurrent histories are C18",
		},
	}
}

// histCount: number of call sequences over the five accessors of length 1..maxLen.
func histCount(maxLen int) int {
	n, p := 0, 1
	for l := 1; l <= maxLen; l++ {
		p *= len(accessors)
		n += p
	}
	return n
}

func histByIndex(index int) []string {
	l, p := 1, len(accessors)
	for index >= p {
		index -= p
		p *= len(accessors)
		l++
	}
	var ops []string
	for i := 0; i < l; i++ {
		ops = append(ops, accessors[index%len(accessors)])
		index /= len(accessors)
	}
	return ops
}

const (
	c16EnumProjectsQuick    = 6
	c16EnumProjectsThorough = 20
)

func (c16Engine) Plan(tier string) []Phase {
	// "enum": for a pool of seed projects, EVERY call sequence up to a length bound (quick: 3 ->
	// 155 sequences x 6 projects; thorough: 5 -> 3905 sequences x 20 projects) under the canonical
	// environment; then the seeded search with changing environments.
	if tier == "thorough" {
		return []Phase{{Mode: "enum", Count: histCount(5) * c16EnumProjectsThorough}, {Mode: "random", Share: 1}}
	}
	return []Phase{{Mode: "enum", Count: histCount(3) * c16EnumProjectsQuick}, {Mode: "random", Share: 1}}
}

func pickProject(r *Rand, corpusShare int) *Project {
	if r.Chance(corpusShare, 100) {
		for try := 0; try < 4; try++ {
			if p := corpusProject(r.Intn(1 << 20)); p != nil && len(p.Files) > 0 && p.Valid {
				return p
			}
		}
	}
	p := genValid(r.Fork())
	for try := 0; try < 4 && !p.Valid; try++ { // the accessor engines want accepted projects
		p = genValid(r.Fork())
	}
	if typeUsesMix && r.Chance(1, 5) {
		// user types of every notation used in every place that takes a type: many of these
		// combinations are accepted, and the serialisers then meet schemas they rarely see
		root := p.File(p.Root)
		nl := "\n"
		if root.CRLF {
			nl = "\r\n"
		}
		s := string(root.Data)
		if !strings.HasSuffix(s, nl) {
			s += nl
		}
		for i := 0; i < r.Range(1, 2); i++ {
			kind := "notation-mix"
			switch r.Intn(3) {
			case 1:
				kind = "hostile-paths" // unusual URL paths: most of them are accepted, and the exporters turn them into keys
			case 2:
				kind = "export-failures" // accepted, but the OpenAPI exporter fails in several ways at once
			}
			s += strings.ReplaceAll(defectBlock(kind, 70+i, r), "\n", nl)
		}
		root.Data = []byte(s)
		p.Kind, p.Valid = "generated-type-uses", false
		p.Features = append(p.Features, "type-uses-mix")
	}
	p.Name = fmt.Sprintf("gen-%x", fnv64(string(p.Files[0].Data)))
	return p
}

// typeUsesMix is switched off while the enumeration phase of C16 picks its projects (a rejected
// project would waste every history enumerated for it).
var typeUsesMix = true

func randEnv(r *Rand) Env {
	e := Env{Ambient: r.U64()}
	switch k := r.Intn(10); {
	case k < 4:
	case k < 9:
		e.MapMode, e.MapSeed = 1, r.U64()
	default:
		e.MapMode = 2
	}
	switch k := r.Intn(10); {
	case k < 2:
		e.Pool = simrt.PoolFreshOnly
	case k < 6:
		e.Pool = simrt.PoolIsolating
	case k < 8:
		e.Pool = simrt.PoolAdversarial
	case k < 9:
		e.Pool = simrt.PoolRandom
	default:
		e.Pool = simrt.PoolFreshOnly
	}
	e.DropAll = r.Chance(1, 8)
	return e
}

func (c16Engine) Gen(job *Job) *Case {
	r := NewRand(job.Seed)
	c := &Case{Prop: "C16", Seed: job.Seed, Entry: "path"}
	if job.Mode == "enum" {
		pool, maxLen := c16EnumProjectsQuick, 3
		if job.Tier == "thorough" {
			pool, maxLen = c16EnumProjectsThorough, 5
		}
		pi := job.Index % pool
		pr := NewRand(RunSeed(0xC16, uint64(pi)))
		typeUsesMix = false
		c.Project = pickProject(pr, 40)
		typeUsesMix = true
		for _, op := range histByIndex((job.Index / pool) % histCount(maxLen)) {
			c.History = append(c.History, Step{Op: op})
		}
		c.Note = "enum"
		return c
	}
	c.Project = pickProject(r, 40)
	if r.Chance(1, 3) {
		c.Entry = "mem"
	}
	n := r.Range(2, 6)
	if job.Tier == "thorough" && r.Chance(1, 3) {
		n = r.Range(6, 10)
	}
	for i := 0; i < n; i++ {
		c.History = append(c.History, Step{Op: accessors[r.Intn(len(accessors))], Env: randEnv(r)})
	}
	return c
}

func buildCase(c *Case) *Outcome {
	root := spellRoot(c.Project.Root, c.RootAs)
	if c.Entry == "mem" {
		f := c.Project.File(c.Project.Root)
		if f == nil {
			return BuildPath(root, c.Banned...)
		}
		return BuildMem(root, f.Data, c.Banned...)
	}
	return BuildPath(root, c.Banned...)
}

func projectHash(p *Project) string {
	var parts []string
	for _, f := range p.Files {
		parts = append(parts, f.Path, string(f.Data))
	}
	return fmt.Sprintf("%016x", fnv64(parts...))
}

func (c16Engine) Exec(c *Case, job *Job) *Result {
	res := &Result{}
	must(Materialise(c.Project.Files))
	canonicalEnv()
	simrt.SetOSHook(nil)
	o := buildCase(c)
	if !o.OK {
		res.Verdict = "skip"
		res.count("skipped:project-rejected", 1)
		if o.Panic != "" {
			res.Foreign = append(res.Foreign, "C01:build-panic")
		}
		return res
	}
	res.count("project:"+c.Project.Kind, 1)
	for _, f := range c.Project.Features {
		res.count("feature:"+f, 1)
	}
	refs := map[string]CallResult{}
	ref := func(op string) CallResult {
		if r, ok := refs[op]; ok {
			return r
		}
		canonicalEnv()
		fo := buildCase(c)
		var r CallResult
		if !fo.OK {
			r = CallResult{Err: "reference build failed: " + fo.Text()}
		} else {
			r = call(fo.japi, op)
		}
		refs[op] = r
		return r
	}
	// references are taken before the history starts, so that they cannot be influenced by it
	for _, st := range c.History {
		ref(st.Op)
	}
	simrt.PoolSimBegin(simrt.PoolConfig{Policy: simrt.PoolIsolating}, c.Seed)
	defer canonicalEnv()
	var ops []string
	type stepLog struct {
		Op     string `json:"op"`
		Env    Env    `json:"env"`
		Result string `json:"result"`
	}
	var slog []stepLog
	// the slices the caller was handed, as handed (no copy), with what they contained at that moment:
	// a later call must not change bytes an earlier call returned
	type heldBytes struct {
		b    []byte
		hash uint64
		step int
	}
	var held []heldBytes
	for i, st := range c.History {
		applyEnv(st.Env)
		got := call(o.japi, st.Op)
		if got.Err == "" && got.Panic == "" && len(got.Bytes) > 0 {
			held = append(held, heldBytes{got.Bytes, fnv64(string(got.Bytes)), i})
		}
		ops = append(ops, st.Op)
		res.count("call:"+st.Op, 1)
		res.count(fmt.Sprintf("env:map-mode-%d", st.Env.MapMode), 1)
		res.count(fmt.Sprintf("env:pool-policy-%d", st.Env.Pool), 1)
		if st.Env.DropAll {
			res.count("fault:pool-drop-all", 1)
		}
		if got.Panic != "" {
			res.count("foreign:accessor-panic", 1)
			res.Foreign = append(res.Foreign, "C17:"+st.Op+"-panic")
		}
		if got.Err != "" {
			res.count("accessor-error", 1)
		}
		slog = append(slog, stepLog{st.Op, st.Env, got.Short()})
		want := ref(st.Op)
		if got.Text() != want.Text() {
			prev := "it was the first call"
			if i > 0 {
				prev = "after " + strings.Join(ops[:i], ", ")
			}
			res.violate("nonrepeatable", st.Op+": "+classifyDiff(want, got),
				fmt.Sprintf("call %d (%s) on the built catalog returned %s, but the first call of %s on a freshly built instance returns %s; %s\n%s",
					i+1, st.Op, got.Short(), st.Op, want.Short(), prev, firstDiff(want.Text(), got.Text())))
			break
		}
	}
	for _, h := range held {
		if res.Verdict == "violation" {
			break
		}
		if fnv64(string(h.b)) != h.hash {
			later := "a later call"
			if h.step+1 < len(ops) {
				later = strings.Join(ops[h.step+1:], ", ")
			}
			res.violate("nonrepeatable", c.History[h.step].Op+": returned-bytes-changed",
				fmt.Sprintf("the %d bytes returned by call %d (%s) were changed in the caller's hands by %s: the returned slice aliases memory that a later accessor call writes into", len(h.b), h.step+1, c.History[h.step].Op, later))
		}
		res.count("probe:held-results-rechecked", 1)
	}
	if n := simrt.AmbientReads(); n > 0 {
		res.count("probe:ambient-reads", int(n))
	}
	res.Steps = len(c.History)
	res.NonTrivial = len(c.History) >= 2
	res.Key = projectHash(c.Project) + ":" + strings.Join(ops, ",")
	if job.Sample || res.Verdict == "violation" {
		res.Detail, _ = json.Marshal(map[string]any{"history": slog})
	}
	return res
}

func classifyDiff(want, got CallResult) string {
	switch {
	case want.Panic != "" || got.Panic != "":
		return "panic-vs-value"
	case (want.Err == "") != (got.Err == ""):
		return "error-vs-value"
	case want.Err != "":
		return "different-errors"
	}
	return "different-bytes"
}

func (c16Engine) Shrinks(c *Case) []*Case {
	var out []*Case
	// fewer calls
	for i := range c.History {
		if len(c.History) <= 1 {
			break
		}
		d := cloneCase(c)
		d.History = append(d.History[:i], d.History[i+1:]...)
		out = append(out, d)
	}
	// canonical environment
	for i, st := range c.History {
		if st.Env.MapMode != 0 || st.Env.Pool != 0 || st.Env.DropAll {
			d := cloneCase(c)
			d.History[i].Env = Env{}
			out = append(out, d)
		}
	}
	for _, p := range shrinkProjects(c.Project) {
		d := cloneCase(c)
		d.Project = p
		out = append(out, d)
	}
	return out
}
