package main

import (
	"fmt"
	"runtime"
	"strings"

	"simrt"
)

// scaleProject renders a project whose size grows linearly with n along one dimension.
func scaleProject(shape string, n int) *Project {
	p := &Project{Kind: "scale:" + shape, Root: "root.jst"}
	var sb strings.Builder
	sb.WriteString("JSIGHT 0.3\n")
	file := func(name, s string) { p.Files = append(p.Files, GenFile{Path: name, Data: []byte(s)}) }
	switch shape {
	case "tags":
		for i := 0; i < n; i++ {
			fmt.Fprintf(&sb, "TAG @t%d // tag %d\n", i, i)
		}
	case "methods":
		for i := 0; i < n; i++ {
			fmt.Fprintf(&sb, "GET /p%d\n  200 any\n", i)
		}
	case "methods-with-bodies":
		for i := 0; i < n; i++ {
			fmt.Fprintf(&sb, "POST /p%d\n  Request\n    {\"a\": %d}\n  200\n    {\"b\": %d}\n", i, i, i)
		}
	case "types-independent":
		for i := 0; i < n; i++ {
			fmt.Fprintf(&sb, "TYPE @t%d\n  {\"a\": %d}\n", i, i)
		}
	case "types-chain":
		fmt.Fprintf(&sb, "TYPE @t0\n  {\"a\": 0}\n")
		for i := 1; i < n; i++ {
			fmt.Fprintf(&sb, "TYPE @t%d\n  {\"p\": @t%d}\n", i, i-1)
		}
	case "includes-flat":
		for i := 0; i < n; i++ {
			fmt.Fprintf(&sb, "INCLUDE f%d.jst\n", i)
			file(fmt.Sprintf("f%d.jst", i), fmt.Sprintf("TAG @t%d\n", i))
		}
	case "include-doubling":
		// every file includes the next one twice: n files, 2^n inclusions of the last one
		sb.WriteString("GET /p\n  INCLUDE d0.jst\n  INCLUDE d0.jst\n")
		for i := 0; i < n-1; i++ {
			file(fmt.Sprintf("d%d.jst", i), fmt.Sprintf("INCLUDE d%d.jst\nINCLUDE d%d.jst\n", i+1, i+1))
		}
		file(fmt.Sprintf("d%d.jst", n-1), "200 any\n")
	case "include-same-file":
		for i := 0; i < n; i++ {
			fmt.Fprintf(&sb, "GET /p%d\n  INCLUDE r.jst\n", i)
		}
		file("r.jst", "200 any\n404 any\n")
	case "pastes":
		sb.WriteString("MACRO @m\n(\n  200 any\n  404 any\n)\n")
		for i := 0; i < n; i++ {
			fmt.Fprintf(&sb, "GET /p%d\n  PASTE @m\n", i)
		}
	case "macros":
		for i := 0; i < n; i++ {
			fmt.Fprintf(&sb, "MACRO @m%d\n(\n  2%02d any\n)\n", i, i%100)
		}
		sb.WriteString("GET /p\n  200 any\n")
	case "types-star":
		fmt.Fprintf(&sb, "TYPE @t0\n  {\"a\": 0}\n")
		for i := 1; i < n; i++ {
			fmt.Fprintf(&sb, "TYPE @t%d\n  {\"p\": @t0}\n", i)
		}
	case "allof-chain":
		fmt.Fprintf(&sb, "TYPE @t0\n  {\"a0\": 0}\n")
		for i := 1; i < n; i++ {
			fmt.Fprintf(&sb, "TYPE @t%d\n  { // {allOf: \"@t%d\"}\n    \"a%d\": %d\n  }\n", i, i-1, i, i)
		}
	case "macro-chain":
		fmt.Fprintf(&sb, "MACRO @m0\n(\n  200 any\n)\n")
		for i := 1; i < n; i++ {
			fmt.Fprintf(&sb, "MACRO @m%d\n(\n  PASTE @m%d\n)\n", i, i-1)
		}
		fmt.Fprintf(&sb, "GET /p\n  PASTE @m%d\n", n-1)
	case "macro-doubling":
		// every macro pastes the previous one twice: n macros, 2^n pasted directives
		fmt.Fprintf(&sb, "MACRO @m0\n(\n  200 any\n)\n")
		for i := 1; i < n; i++ {
			fmt.Fprintf(&sb, "MACRO @m%d\n(\n  PASTE @m%d\n  PASTE @m%d\n)\n", i, i-1, i-1)
		}
		fmt.Fprintf(&sb, "GET /p\n  PASTE @m%d\n", n-1)
	case "responses":
		sb.WriteString("GET /p\n")
		for i := 0; i < n; i++ {
			fmt.Fprintf(&sb, "  %d any\n", 100+i%500)
		}
	case "rpc-methods":
		sb.WriteString("URL /rpc\n  Protocol json-rpc-2.0\n")
		for i := 0; i < n; i++ {
			fmt.Fprintf(&sb, "  Method m%d\n    Params\n      {\"a\": %d}\n    Result\n      %d\n", i, i, i)
		}
	case "tags-on-methods":
		for i := 0; i < n; i++ {
			fmt.Fprintf(&sb, "TAG @g%d\n", i)
		}
		for i := 0; i < n; i++ {
			fmt.Fprintf(&sb, "GET /p%d\n  Tags @g%d\n  200 any\n", i, i)
		}
	case "methods-using-one-type":
		sb.WriteString("TYPE @t\n  {\"a\": 1}\n")
		for i := 0; i < n; i++ {
			fmt.Fprintf(&sb, "GET /p%d\n  200 @t\n", i)
		}
	case "description-text":
		sb.WriteString("INFO\n  Title \"t\"\n  Description\n")
		for i := 0; i < n; i++ {
			fmt.Fprintf(&sb, "    line %d of the text\n", i)
		}
	case "types-diamond-doubling":
		// two user types per level, each referring to both types of the next level: 2n types, 2^n paths
		for i := 0; i < n; i++ {
			for _, ab := range []string{"a", "b"} {
				if i == n-1 {
					fmt.Fprintf(&sb, "TYPE @d%d%s\n  1\n", i, ab)
				} else {
					fmt.Fprintf(&sb, "TYPE @d%d%s\n  @d%da | @d%db\n", i, ab, i+1, i+1)
				}
			}
		}
		sb.WriteString("GET /p\n  200 @d0a\n")
	case "types-and-bodies":
		// n user types AND n inline bodies (none of which uses any of the types)
		for i := 0; i < n; i++ {
			fmt.Fprintf(&sb, "TYPE @t%d\n  {\"a\": %d}\n", i, i)
		}
		for i := 0; i < n; i++ {
			fmt.Fprintf(&sb, "GET /p%d\n  200\n    {\"b\": %d}\n", i, i)
		}
	case "enums-and-types":
		for i := 0; i < n; i++ {
			fmt.Fprintf(&sb, "ENUM @e%d\n  [%d, %d]\n", i, i, i+1)
		}
		for i := 0; i < n; i++ {
			fmt.Fprintf(&sb, "TYPE @t%d\n  {\"a\": %d}\n", i, i)
		}
		sb.WriteString("GET /p\n  200 any\n")
	case "path-params":
		// ONE path with n parameters
		sb.WriteString("GET ")
		for i := 0; i < n; i++ {
			fmt.Fprintf(&sb, "/{p%d}", i)
		}
		sb.WriteString("\n  200 any\n")
	case "path-segments":
		sb.WriteString("GET ")
		for i := 0; i < n; i++ {
			fmt.Fprintf(&sb, "/s%d", i)
		}
		sb.WriteString("\n  200 any\n")
	case "one-tags-directive":
		for i := 0; i < n; i++ {
			fmt.Fprintf(&sb, "TAG @t%d\n", i)
		}
		sb.WriteString("GET /p\n  Tags")
		for i := 0; i < n; i++ {
			fmt.Fprintf(&sb, " @t%d", i)
		}
		sb.WriteString("\n  200 any\n")
	case "enum-values":
		sb.WriteString("ENUM @e\n  [\n")
		for i := 0; i < n; i++ {
			c := ","
			if i == n-1 {
				c = ""
			}
			fmt.Fprintf(&sb, "    \"v%d\"%s\n", i, c)
		}
		sb.WriteString("  ]\nGET /p\n  200\n    \"v1\" // {enum: @e}\n")
	case "array-items":
		sb.WriteString("GET /p\n  200\n    [\n")
		for i := 0; i < n; i++ {
			c := ","
			if i == n-1 {
				c = ""
			}
			fmt.Fprintf(&sb, "      %d%s\n", i, c)
		}
		sb.WriteString("    ]\n")
	case "or-types":
		for i := 0; i < n; i++ {
			fmt.Fprintf(&sb, "TYPE @o%d\n  {\"a%d\": %d}\n", i, i, i)
		}
		sb.WriteString("GET /p\n  200\n    @o0")
		for i := 1; i < n; i++ {
			fmt.Fprintf(&sb, " | @o%d", i)
		}
		sb.WriteString("\n")
	case "allof-list":
		for i := 0; i < n; i++ {
			fmt.Fprintf(&sb, "TYPE @o%d\n  {\"a%d\": %d}\n", i, i, i)
		}
		sb.WriteString("GET /p\n  200\n    { // {allOf: [")
		for i := 0; i < n; i++ {
			if i > 0 {
				sb.WriteString(", ")
			}
			fmt.Fprintf(&sb, "\"@o%d\"", i)
		}
		sb.WriteString("]}\n      \"z\": 1\n    }\n")
	case "servers":
		for i := 0; i < n; i++ {
			fmt.Fprintf(&sb, "SERVER @s%d // server %d\n  BaseUrl \"https://s%d.example.com\"\n", i, i, i)
		}
		sb.WriteString("GET /p\n  200 any\n")
	case "query-props":
		sb.WriteString("GET /p\n  Query \"a=1\"\n    {\n")
		for i := 0; i < n; i++ {
			c := ","
			if i == n-1 {
				c = ""
			}
			fmt.Fprintf(&sb, "      \"q%d\": %d%s\n", i, i, c)
		}
		sb.WriteString("    }\n  200 any\n")
	case "header-props":
		sb.WriteString("POST /p\n  Request\n    Headers\n      {\n")
		for i := 0; i < n; i++ {
			c := ","
			if i == n-1 {
				c = ""
			}
			fmt.Fprintf(&sb, "        \"X-H%d\": \"%d\"%s\n", i, i, c)
		}
		sb.WriteString("      }\n    Body any\n  200 any\n")
	case "long-annotation":
		sb.WriteString("GET /p // " + strings.Repeat("word ", n) + "\n  200 any\n")
	case "blank-lines":
		sb.WriteString(strings.Repeat("\n", n*4) + "GET /p\n  200 any\n")
	case "comment-lines":
		for i := 0; i < n; i++ {
			fmt.Fprintf(&sb, "# comment %d\n", i)
		}
		sb.WriteString("GET /p\n  200 any\n")
	case "urls-with-methods":
		for i := 0; i < n; i++ {
			fmt.Fprintf(&sb, "URL /u%d/{id}\n  Path\n    {\"id\": %d}\n  GET\n    200 any\n  DELETE\n    200 any\n", i, i)
		}
	case "similar-paths":
		for i := 0; i < n; i++ {
			fmt.Fprintf(&sb, "GET /x%d/{a}/y\n  200 any\n", i)
		}
	case "one-big-body":
		sb.WriteString("GET /p\n  200\n    {\n")
		for i := 0; i < n; i++ {
			c := ","
			if i == n-1 {
				c = ""
			}
			fmt.Fprintf(&sb, "      \"k%d\": %d%s\n", i, i, c)
		}
		sb.WriteString("    }\n")
	}
	file("root.jst", sb.String())
	// root must be first
	p.Files = append([]GenFile{p.Files[len(p.Files)-1]}, p.Files[:len(p.Files)-1]...)
	return p
}

var scaleShapes = []string{"tags", "methods", "methods-with-bodies", "types-independent", "types-chain", "includes-flat", "include-same-file", "pastes", "macros", "description-text", "one-big-body", "types-star", "allof-chain", "macro-chain", "responses", "rpc-methods", "tags-on-methods", "methods-using-one-type", "macro-doubling", "include-doubling",
	"path-params", "path-segments", "one-tags-directive", "enum-values", "array-items", "or-types", "allof-list", "servers", "query-props", "header-props", "long-annotation", "blank-lines", "comment-lines", "urls-with-methods", "similar-paths",
	"types-and-bodies", "enums-and-types", "types-diamond-doubling"}

// scaleSizes: n and 4n per shape (the doubling shapes are exponential in the real code: 4 and 16
// are enough to show it and small enough to finish).
func scaleSizes(shape string) [2]int {
	if strings.HasSuffix(shape, "-doubling") {
		return [2]int{4, 16}
	}
	if shape == "path-params" || shape == "path-segments" {
		return [2]int{200, 800} // one line: the fixed cost of a build hides the trend at 50
	}
	return [2]int{50, 200}
}

// depthShapes: one construct nested (or chained) 100 000 levels deep - a 0.2-2.7 MB document.
// Every recursion whose depth follows the nesting of the input exhausts the goroutine stack at
// some size; the workers run with a 64 MB stack limit (the runtime's default of 1 GB needs a
// 16 times larger document and 1-2 GB of memory to show the same thing).
var depthShapes = []string{"array-nesting", "object-nesting", "array-object-nesting", "macro-chain", "paren-nesting", "regex-nesting", "enum-nesting", "type-array-nesting", "annotation-nesting", "or-rule-nesting", "include-chain", "tag-chain"}

func depthProject(shape string, n int) *Project {
	p := &Project{Kind: "depth:" + shape, Root: "root.jst"}
	var sb strings.Builder
	sb.WriteString("JSIGHT 0.3\n")
	rep := strings.Repeat
	switch shape {
	case "array-nesting":
		sb.WriteString("GET /p\n  200\n    " + rep("[", n) + "1" + rep("]", n) + "\n")
	case "object-nesting":
		sb.WriteString("GET /p\n  200\n    " + rep("{\"a\":", n) + "1" + rep("}", n) + "\n")
	case "array-object-nesting":
		sb.WriteString("GET /p\n  200\n    " + rep("[{\"a\":", n/2) + "1" + rep("}]", n/2) + "\n")
	case "macro-chain":
		sb.WriteString("MACRO @m0\n(\n  200 any\n)\n")
		for i := 1; i < n; i++ {
			fmt.Fprintf(&sb, "MACRO @m%d\n(\n  PASTE @m%d\n)\n", i, i-1)
		}
		fmt.Fprintf(&sb, "GET /p\n  PASTE @m%d\n", n-1)
	case "paren-nesting":
		sb.WriteString("GET /p\n  200 any\n" + rep("(\n", n) + rep(")\n", n))
	case "regex-nesting":
		sb.WriteString("TYPE @r regex\n  /" + rep("(", n) + "a" + rep(")", n) + "/\n")
	case "enum-nesting":
		sb.WriteString("ENUM @e\n  " + rep("[", n) + "1" + rep("]", n) + "\n")
	case "type-array-nesting":
		sb.WriteString("TYPE @t\n  " + rep("[", n) + "1" + rep("]", n) + "\nGET /p\n  200 @t\n")
	case "annotation-nesting":
		sb.WriteString("GET /p\n  200\n    {\"a\": 1 // " + rep("{a: ", n) + "1" + rep("}", n) + "\n    }\n")
	case "or-rule-nesting":
		sb.WriteString("GET /p\n  200\n    1 // {or: " + rep("[{or: ", n/50) + "[{type: \"integer\"}, {type: \"string\"}]" + rep("}, {type: \"string\"}]", n/50) + "}\n")
	case "include-chain":
		// 2 000 files, each including the next one
		k := n / 50
		sb.WriteString("INCLUDE c0.jst\n")
		for i := 0; i < k-1; i++ {
			p.Files = append(p.Files, GenFile{Path: fmt.Sprintf("c%d.jst", i), Data: []byte(fmt.Sprintf("INCLUDE c%d.jst\n", i+1))})
		}
		p.Files = append(p.Files, GenFile{Path: fmt.Sprintf("c%d.jst", k-1), Data: []byte("TAG @end\n")})
	case "tag-chain":
		// user types referring to the previous one are K4 (cubic); tags are flat - a long run of
		// methods each naming all tags so far would be quadratic by construction. Here: one method with n tags.
		for i := 0; i < n/10; i++ {
			fmt.Fprintf(&sb, "TAG @t%d\n", i)
		}
		sb.WriteString("GET /p\n  Tags")
		for i := 0; i < n/10; i++ {
			fmt.Fprintf(&sb, " @t%d", i)
		}
		sb.WriteString("\n  200 any\n")
	default:
		panic("unknown depth shape " + shape)
	}
	p.Files = append([]GenFile{{Path: "root.jst", Data: []byte(sb.String())}}, p.Files...)
	return p
}

// totalAlloc: bytes allocated so far by this process (cumulative). The second work measure of
// the scaling phase: quadratic work done inside the standard library (strings.Join / Split over
// growing prefixes, repeated copies) passes no seam but allocates.
func totalAlloc() uint64 {
	var m runtime.MemStats
	runtime.ReadMemStats(&m)
	return m.TotalAlloc
}

func scaletestMain() {
	canonicalEnv()
	for _, sh := range scaleShapes {
		var row []string
		var prev, prevAlloc uint64
		for _, n := range scaleSizes(sh) {
			p := scaleProject(sh, n)
			must(Materialise(p.Files))
			simrt.ResetOps()
			a0 := totalAlloc()
			o := BuildPath(projDir + "/" + p.Root)
			al := totalAlloc() - a0
			ops := simrt.Ops()
			r := ""
			if prev > 0 {
				r = fmt.Sprintf(" (x%.1f)", float64(ops)/float64(prev))
			}
			prev = ops
			ra := ""
			if prevAlloc > 0 {
				ra = fmt.Sprintf(" (x%.1f)", float64(al)/float64(prevAlloc))
			}
			prevAlloc = al
			row = append(row, fmt.Sprintf("n=%d %s ops=%d%s alloc=%dK%s", n, o.Class(), ops, r, al>>10, ra))
		}
		fmt.Printf("%-22s %s\n", sh, strings.Join(row, " | "))
	}
}
