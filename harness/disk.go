package main

import (
	"errors"
	"fmt"
	"io/fs"
	"os"
	"path/filepath"
	"strings"
	"syscall"
	"time"
)

// Sim-disk. The project lives in a real directory tree under the worker's private
// directory (the worker's cwd), so the kernel VFS is real; what is on the disk, and when, is
// decided by the fault plan, whose actions are executed synchronously inside the mediated
// file-system calls (simrt.OSHook) - the outcome never depends on timing.
//
// Layout (relative to the worker's cwd):   a/p/<project files>      the project directory
//                                          a/secret.jst, a/q/other.jst, top.jst   decoys outside it

const projDir = "a/p"

var decoyPaths = []string{"a/secret.jst", "a/q/other.jst", "top.jst"}

const decoyContent = "TYPE @decoyLeaked\n  {\"leak\": 1}\n"

const maxAccesses = 5000

type Access struct {
	Seq    int    `json:"seq"`
	Op     string `json:"op"`   // stat, read, lstat, open, ...
	Path   string `json:"path"` // exactly as handed to the file system
	Site   string `json:"site"`
	Result string `json:"result"` // ok, dir, enoent, synthetic:<errno>, err:<text>
	Len    int    `json:"len,omitempty"`
	Hash   uint64 `json:"hash,omitempty"`
	data   []byte
}

// Fault: trigger + action. A fault fires at most once.
type Fault struct {
	Kind string `json:"kind"`
	// trigger: before the Nth (1-based) access with op On ("stat", "read", "any") whose path
	// ends with OnPath ("" = any path); Nth == 0 means "before the build starts".
	On     string `json:"on,omitempty"`
	OnPath string `json:"on_path,omitempty"`
	Nth    int    `json:"nth,omitempty"`
	// action parameters
	Target string `json:"target,omitempty"` // project-relative path the action is applied to ("" = the path being accessed)
	Off    int    `json:"off,omitempty"`
	Len    int    `json:"len,omitempty"`
	Mask   byte   `json:"mask,omitempty"`
	Data   []byte `json:"data,omitempty"` // replacement content / stale version / bytes to write
	Dst    string `json:"dst,omitempty"`  // misdirect: other file
	Errno  string `json:"errno,omitempty"`
	fired  bool
	seen   int
}

type Disk struct {
	log       []Access
	faults    []Fault
	fired     map[string]int
	overLimit bool
	pendErr   error
	limit     int
}

type stepLimit struct{}

var cwdPrefix string

// relCwd strips the worker's own working directory from an absolute path (a root given as an
// absolute path makes every INCLUDE path absolute too); everything else is left as handed over.
// initCwd is called once, single-threaded, after the worker has changed into its directory
// (relCwd is called from concurrent tasks and must not write).
func initCwd() {
	if wd, err := os.Getwd(); err == nil {
		cwdPrefix = wd + "/"
	}
}

func relCwd(p string) string {
	if cwdPrefix != "" && strings.HasPrefix(p, cwdPrefix) {
		return p[len(cwdPrefix):]
	}
	// "../<name of the working directory>/x" is x as well
	if cwdPrefix != "" && strings.HasPrefix(p, "../") {
		wd := strings.TrimSuffix(cwdPrefix, "/")
		up := "../" + wd[strings.LastIndexByte(wd, '/')+1:] + "/"
		if strings.HasPrefix(p, up) {
			return p[len(up):]
		}
	}
	return p
}

func (d *Disk) Before(op, path, site string) error {
	if len(d.log) >= d.limit {
		d.overLimit = true
		panic(stepLimit{})
	}
	path = relCwd(path)
	d.log = append(d.log, Access{Seq: len(d.log), Op: op, Path: path, Site: site, Result: "?"})
	var synth error
	for i := range d.faults {
		f := &d.faults[i]
		if f.fired || f.Nth == 0 {
			continue
		}
		if f.On != "any" && f.On != op {
			continue
		}
		if f.OnPath != "" && !pathMatches(path, f.OnPath) {
			continue
		}
		f.seen++
		if f.seen != f.Nth {
			continue
		}
		f.fired = true
		if e := d.apply(f, path); e != nil {
			synth = e
		}
	}
	if synth != nil {
		d.log[len(d.log)-1].Result = "synthetic:" + synth.(*fs.PathError).Err.Error()
	}
	return synth
}

func pathMatches(p, suffix string) bool {
	p = filepath.Clean(p)
	return p == suffix || strings.HasSuffix(p, "/"+suffix)
}

func (d *Disk) After(op, path, site string, data []byte, isDir bool, err error) {
	a := &d.log[len(d.log)-1]
	switch {
	case err == nil && isDir:
		a.Result = "dir"
	case err == nil:
		a.Result = "ok"
		if op == "read" {
			a.Len = len(data)
			a.Hash = fnv64(string(data))
			a.data = append([]byte(nil), data...)
		}
	case errors.Is(err, os.ErrNotExist):
		a.Result = "enoent"
	default:
		a.Result = "err:" + errText(err)
	}
}

func errText(err error) string {
	var pe *fs.PathError
	if errors.As(err, &pe) {
		return pe.Err.Error()
	}
	return err.Error()
}

// StartFaults applies the faults that fire before the build starts.
func (d *Disk) StartFaults() {
	for i := range d.faults {
		f := &d.faults[i]
		if f.Nth == 0 && !f.fired {
			f.fired = true
			d.apply(f, "")
		}
	}
}

func (d *Disk) target(f *Fault, accessed string) string {
	if f.Target != "" {
		return filepath.Join(projDir, f.Target)
	}
	return accessed
}

// apply executes the fault's action on the real tree. Returns a synthetic error for the
// kinds that stub the syscall result.
func (d *Disk) apply(f *Fault, accessed string) error {
	t := d.target(f, accessed)
	d.fired[f.Kind]++
	switch f.Kind {
	case "enoent":
		os.RemoveAll(t)
	case "eisdir":
		os.RemoveAll(t)
		os.MkdirAll(t, 0o755)
	case "enotdir":
		dir := filepath.Dir(t)
		if dir != projDir && strings.HasPrefix(dir, projDir+"/") {
			os.RemoveAll(dir)
			os.WriteFile(dir, []byte("not a directory\n"), 0o644)
		} else {
			d.fired[f.Kind]--
			d.fired["noop"]++
		}
	case "eloop":
		os.RemoveAll(t)
		os.Symlink(filepath.Base(t), t)
	case "dangling":
		os.RemoveAll(t)
		os.Symlink("no-such-target.jst", t)
	case "grow":
		// somebody appends to the file (a log-like include, an editor saving): it is longer at
		// read time than the stat said. Blank lines and a comment: the text stays what it was
		if fh, err := os.OpenFile(t, os.O_APPEND|os.O_WRONLY, 0o644); err == nil {
			n := f.Len
			if n <= 0 {
				n = 1
			}
			fh.WriteString(strings.Repeat("\n", n) + "# appended\n")
			fh.Close()
			os.Chtimes(t, fixedMtime, fixedMtime)
		}
	case "torn":
		if b, err := os.ReadFile(t); err == nil {
			o := f.Off
			if o > len(b) {
				o = len(b)
			}
			os.WriteFile(t, b[:o], 0o644)
		}
	case "flip":
		if b, err := os.ReadFile(t); err == nil && len(b) > 0 {
			o := f.Off % len(b)
			m := f.Mask
			if m == 0 {
				m = 1
			}
			b[o] ^= m
			os.WriteFile(t, b, 0o644)
		}
	case "filler-tail":
		// from Off to the end the file reads back as one filler byte: never-written blocks (0x00),
		// erased flash (0xFF), a test pattern left by a formatter (0xAA / 0x55), a stuck line (0x80, 0xBF)
		if b, err := os.ReadFile(t); err == nil && len(b) > 0 {
			for i := f.Off % len(b); i < len(b); i++ {
				b[i] = f.Mask
			}
			os.WriteFile(t, b, 0o644)
		}
	case "setbyte":
		if b, err := os.ReadFile(t); err == nil && f.Off < len(b) {
			b[f.Off] = f.Mask
			os.WriteFile(t, b, 0o644)
		}
	case "lost-zero", "lost-stale", "dup", "misdirect":
		b, err := os.ReadFile(t)
		if err != nil || len(b) == 0 {
			break
		}
		o := f.Off % len(b)
		n := f.Len
		if n < 1 {
			n = 1
		}
		if o+n > len(b) {
			n = len(b) - o
		}
		switch f.Kind {
		case "lost-zero":
			for i := o; i < o+n; i++ {
				b[i] = 0
			}
		case "lost-stale":
			for i := o; i < o+n; i++ {
				if i < len(f.Data) {
					b[i] = f.Data[i]
				} else {
					b[i] = ' '
				}
			}
		case "dup": // the sector is written a second time, one sector further
			seg := append([]byte(nil), b[o:o+n]...)
			for i := 0; i < n && o+n+i < len(b); i++ {
				b[o+n+i] = seg[i]
			}
		case "misdirect":
			dst := filepath.Join(projDir, f.Dst)
			if db, err := os.ReadFile(dst); err == nil && len(db) > 0 {
				do := o % len(db)
				for i := 0; i < n && do+i < len(db); i++ {
					db[do+i] = b[o+i]
				}
				os.WriteFile(dst, db, 0o644)
			}
			return nil
		}
		os.WriteFile(t, b, 0o644)
	case "replace": // stale-file, change-between-includes, make-cycle, swap-after-stat(content)
		os.RemoveAll(t)
		os.MkdirAll(filepath.Dir(t), 0o755)
		os.WriteFile(t, f.Data, 0o644)
	case "eacces", "eio":
		en := syscall.EACCES
		if f.Kind == "eio" {
			en = syscall.EIO
		}
		op := "open"
		if len(d.log) > 0 && d.log[len(d.log)-1].Op == "stat" {
			op = "stat"
		}
		return &fs.PathError{Op: op, Path: accessed, Err: en}
	default:
		panic("disk: unknown fault kind " + f.Kind)
	}
	return nil
}

// MaterialiseAt writes a project below dir (used for runs with several projects).
func MaterialiseAt(dir string, files []GenFile) error {
	resetCwd()
	os.RemoveAll(dir)
	if err := os.MkdirAll(dir, 0o755); err != nil {
		return err
	}
	for _, f := range files {
		p := filepath.Join(dir, f.Path)
		if err := os.MkdirAll(filepath.Dir(p), 0o755); err != nil {
			return err
		}
		if strings.HasSuffix(f.Path, "/") {
			if err := os.MkdirAll(p, 0o755); err != nil {
				return err
			}
			continue
		}
		if f.Special == "fifo" {
			if err := syscall.Mkfifo(p, 0o644); err != nil {
				return err
			}
			continue
		}
		if err := os.WriteFile(p, f.Data, 0o644); err != nil {
			return err
		}
		os.Chtimes(p, fixedMtime, fixedMtime)
	}
	return nil
}

// fixedMtime: every file the sim-disk writes carries the same modification time, whatever
// version it is - the file system of the simulation has a timestamp granularity coarser than
// the run (FAT: 2 s, ext3/HFS+: 1 s, `cp -p`, restored backups). Anything that decides
// "unchanged" from size and mtime is therefore wrong as soon as a fault keeps the size.
var fixedMtime = time.Unix(1577836800, 0)

// Materialise writes the project and the decoys below the current directory.
func Materialise(files []GenFile) error {
	os.RemoveAll("a")
	os.Remove("top.jst")
	if err := os.MkdirAll(projDir, 0o755); err != nil {
		return err
	}
	for _, f := range files {
		p := filepath.Join(projDir, f.Path)
		if err := os.MkdirAll(filepath.Dir(p), 0o755); err != nil {
			return err
		}
		if strings.HasSuffix(f.Path, "/") {
			if err := os.MkdirAll(p, 0o755); err != nil {
				return err
			}
			continue
		}
		if f.Special == "fifo" {
			if err := syscall.Mkfifo(p, 0o644); err != nil {
				return err
			}
			continue
		}
		if err := os.WriteFile(p, f.Data, 0o644); err != nil {
			return err
		}
		os.Chtimes(p, fixedMtime, fixedMtime)
	}
	for _, dp := range decoyPaths {
		os.MkdirAll(filepath.Dir(dp), 0o755)
		if err := os.WriteFile(dp, []byte(decoyContent), 0o644); err != nil {
			return err
		}
	}
	return nil
}

func NewDisk(faults []Fault) *Disk {
	d := &Disk{fired: map[string]int{}, limit: maxAccesses}
	d.faults = append([]Fault(nil), faults...)
	for i := range d.faults {
		d.faults[i].fired = false
		d.faults[i].seen = 0
	}
	return d
}

func (a Access) String() string {
	return fmt.Sprintf("%d %s %s -> %s", a.Seq, a.Op, a.Path, a.Result)
}
