package main

// Rand is SplitMix64. Every random decision of a run (generated project, fault plan,
// histories, map-order seeds, scheduler seed) is derived from one run seed through it.
type Rand struct{ s uint64 }

func NewRand(seed uint64) *Rand { return &Rand{s: seed} }

func (r *Rand) U64() uint64 {
	r.s += 0x9e3779b97f4a7c15
	z := r.s
	z = (z ^ (z >> 30)) * 0xbf58476d1ce4e5b9
	z = (z ^ (z >> 27)) * 0x94d049bb133111eb
	return z ^ (z >> 31)
}

func (r *Rand) Intn(n int) int {
	if n <= 1 {
		return 0
	}
	return int(r.U64() % uint64(n))
}

// Range returns a value in [lo, hi].
func (r *Rand) Range(lo, hi int) int { return lo + r.Intn(hi-lo+1) }

// Chance is true with probability num/den.
func (r *Rand) Chance(num, den int) bool { return r.Intn(den) < num }

func (r *Rand) Pick(ss []string) string { return ss[r.Intn(len(ss))] }

func (r *Rand) Fork() *Rand { return NewRand(r.U64()) }

func (r *Rand) Perm(n int) []int {
	p := make([]int, n)
	for i := range p {
		p[i] = i
	}
	for i := n - 1; i > 0; i-- {
		j := r.Intn(i + 1)
		p[i], p[j] = p[j], p[i]
	}
	return p
}

// RunSeed derives the seed of run k of a batch from the batch seed: run k can be replayed
// without runs 0..k-1.
func RunSeed(batch uint64, k uint64) uint64 {
	r := Rand{s: batch ^ (k+1)*0xd1342543de82ef95}
	return r.U64()
}

func fnv64(parts ...string) uint64 {
	h := uint64(14695981039346656037)
	for _, p := range parts {
		for i := 0; i < len(p); i++ {
			h = (h ^ uint64(p[i])) * 1099511628211
		}
		h = (h ^ 0xff) * 1099511628211
	}
	return h
}
