package main

import (
	"encoding/json"
	"flag"
	"fmt"
	"os"
	"strings"
	"time"
)

// dettest: determinism self-test of the simulator. Every run seed is executed in several
// worker processes that differ in everything the simulator does NOT control - GOMAXPROCS
// (1, 4, 16), position in the worker's job sequence (forward / reverse / alone in a fresh
// process) - and the complete results (verdict, class, signature, distinctness key, every
// counter, logical steps, sampled detail incl. schedule trace hash and access log) must be
// identical. Any difference is a nondeterminism the simulator has not captured: exit 2.
func dettestMain() {
	fl := flag.NewFlagSet("dettest", flag.ExitOnError)
	d := &driverCfg{}
	n := fl.Int("n", 40, "")
	fl.StringVar(&d.prop, "prop", "", "")
	fl.Uint64Var(&d.seed, "seed", 1, "")
	fl.StringVar(&d.scratch, "scratch", "", "")
	fl.StringVar(&d.sites, "sites", "", "")
	fl.StringVar(&d.corpus, "corpus", "", "")
	fl.StringVar(&d.known, "known", "", "")
	fl.BoolVar(&d.race, "race", false, "")
	fl.DurationVar(&d.jobTimeout, "job-timeout", 60*time.Second, "")
	fl.Parse(os.Args[2:])
	d.tier = "quick"
	wenv.corpus = d.corpus
	loadSiteTable(d.sites)
	jobs := make([]*Job, *n)
	for i := range jobs {
		jobs[i] = &Job{ID: i, Prop: d.prop, Seed: RunSeed(d.seed, uint64(i)), Tier: "quick", Mode: "random", Index: i, Sample: true}
	}
	fingerprint := func(r *Result) string {
		if r == nil {
			return "died"
		}
		c := *r
		c.WallUS = 0
		c.ID = 0
		if c.Class == "data-race" || c.Counters["race-reports"] > 0 {
			// Whether ThreadSanitizer fires on a given execution of a racy schedule is best-effort
			// (shadow cells are evicted); the report text holds heap addresses and goroutine ids.
			// The schedule itself (key, steps, every scheduler counter) is still compared.
			c.Msg, c.Sig, c.Class, c.Verdict, c.Case, c.Detail = "", "", "race-dependent", "race-dependent", nil, nil
			cc := map[string]int{}
			for k, v := range c.Counters {
				if k != "race-reports" && !strings.HasPrefix(k, "attributed:") {
					cc[k] = v
				}
			}
			c.Counters = cc
		}
		b, _ := json.Marshal(c)
		return string(b)
	}
	type variant struct {
		name    string
		procs   string
		reverse bool
		alone   bool
	}
	variants := []variant{{"GOMAXPROCS=16 forward", "16", false, false}, {"GOMAXPROCS=1 reverse", "1", true, false}, {"GOMAXPROCS=4 alone", "4", false, true}}
	results := make([][]string, len(variants))
	for vi, v := range variants {
		os.Setenv("GOMAXPROCS", v.procs)
		results[vi] = make([]string, len(jobs))
		if v.alone {
			for i, j := range jobs {
				r, died, _ := d.runAlone(j)
				if died {
					r = nil
				}
				results[vi][i] = fingerprint(r)
			}
			continue
		}
		w, err := d.spawn()
		if err != nil {
			fatal2("spawn: %v", err)
		}
		order := make([]int, len(jobs))
		for i := range order {
			order[i] = i
			if v.reverse {
				order[i] = len(jobs) - 1 - i
			}
		}
		for _, i := range order {
			r, died := w.do(jobs[i])
			if died {
				results[vi][i] = "died"
				w.kill()
				w, _ = d.spawn()
				continue
			}
			results[vi][i] = fingerprint(r)
			if r.Verdict == "violation" && (r.Class == "hang" || r.Class == "deadlock") {
				w.kill()
				w, _ = d.spawn()
			}
		}
		w.kill()
	}
	os.Unsetenv("GOMAXPROCS")
	bad := 0
	for i := range jobs {
		for vi := 1; vi < len(variants); vi++ {
			if results[vi][i] != results[0][i] {
				bad++
				if bad <= 3 {
					fmt.Printf("NONDETERMINISTIC: property=%s seed=%d differs between [%s] and [%s]\n  %s\n  %s\n", d.prop, jobs[i].Seed, variants[0].name, variants[vi].name, trunc(diffAround(results[0][i], results[vi][i]), 600), "")
				}
				break
			}
		}
	}
	fmt.Printf("determinism %s: %d seeds x %d process variants (GOMAXPROCS 16/1/4, forward/reverse/alone): %d seeds differ\n", d.prop, len(jobs), len(variants), bad)
	if bad > 0 {
		os.Exit(2)
	}
}

func diffAround(a, b string) string {
	n := len(a)
	if len(b) < n {
		n = len(b)
	}
	i := 0
	for i < n && a[i] == b[i] {
		i++
	}
	lo := i - 150
	if lo < 0 {
		lo = 0
	}
	ha, hb := i+150, i+150
	if ha > len(a) {
		ha = len(a)
	}
	if hb > len(b) {
		hb = len(b)
	}
	return fmt.Sprintf("A: ...%s\n  B: ...%s", a[lo:ha], b[lo:hb])
}
