package main

import (
	"fmt"
	"strings"
)

// Multi-defect projects for C06: map iteration order is consulted on error paths, and an
// order dependence only becomes observable when SEVERAL independent defects coexist (which
// one is reported first?). Each injection below sits behind a map-iteration site or a
// first-error-wins loop. The oracle never says which error is right, only that it is the
// same one every time.

var defectKinds = []string{
	"self-pasting-macros", "path-extra-props", "undefined-types-one-body", "undefined-enums", "undefined-tags",
	"duplicate-types", "duplicate-enums", "duplicate-tags", "duplicate-servers", "duplicate-macros",
	"rule-violating-types", "allof-missing", "mutual-bad-types", "duplicate-operation-ids", "duplicate-paths",
	"similar-paths", "path-bad-user-types", "undefined-types-many-types", "undefined-macros", "bad-enum-bodies",
	"request-without-body", "response-without-body", "headers-not-object",
	"empty-path-parameter", "repeated-path-parameter", "path-parameters-redefined",
	"duplicate-types-other-notation", "notation-mix", "hostile-paths", "export-failures", "allof-duplicate-key-cycle", "check-errors-in-type-cycle",
	"duplicate-children",
}

// defectGroups: kinds that are detected in the same phase of the builder.
var defectGroups = [][]string{
	{"request-without-body", "response-without-body", "headers-not-object"}, // validateCatalog (last phase)
	{"self-pasting-macros", "undefined-macros", "duplicate-macros"},         // macro collection / paste
	{"duplicate-types", "duplicate-types-other-notation", "undefined-types-many-types", "rule-violating-types", "mutual-bad-types", "allof-missing", "undefined-enums", "notation-mix", "allof-duplicate-key-cycle", "check-errors-in-type-cycle"}, // user types
	{"duplicate-paths", "similar-paths", "path-extra-props", "path-bad-user-types", "path-parameters-redefined"},                                                                        // paths
	{"empty-path-parameter", "repeated-path-parameter", "hostile-paths"},                                                                                                                // path parameters of Path-less directives
	{"undefined-tags", "duplicate-tags", "duplicate-servers", "duplicate-operation-ids", "duplicate-enums", "bad-enum-bodies", "duplicate-children"},
}

func defectBlock(kind string, n int, r *Rand) string {
	var sb strings.Builder
	k := r.Range(2, 3)
	switch kind {
	case "self-pasting-macros":
		for i := 0; i < k; i++ {
			fmt.Fprintf(&sb, "MACRO @sp%d_%d\n(\n  PASTE @sp%d_%d\n)\n", n, i, n, i)
		}
	case "path-extra-props":
		fmt.Fprintf(&sb, "GET /zz%d/{id}\n  Path\n    {\"id\": 1, \"zz\": 2, \"yy\": 3, \"xx\": 4}\n  200 any\n", n)
	case "undefined-types-one-body":
		fmt.Fprintf(&sb, "GET /zu%d\n  200\n    {\"a\": @undefA%d, \"b\": @undefB%d, \"c\": @undefC%d}\n", n, n, n, n)
	case "undefined-enums":
		for i := 0; i < k; i++ {
			fmt.Fprintf(&sb, "TYPE @ue%d_%d\n  {\n    \"a\": \"x\" // {enum: @noenum%d_%d}\n  }\n", n, i, n, i)
		}
	case "undefined-tags":
		fmt.Fprintf(&sb, "GET /zt%d\n  Tags @nt%da @nt%db @nt%dc\n  200 any\n", n, n, n, n)
	case "duplicate-types":
		for i := 0; i < k; i++ {
			fmt.Fprintf(&sb, "TYPE @dupT%d_%d\n  {\"a\": 1}\nTYPE @dupT%d_%d\n  {\"b\": 2}\n", n, i, n, i)
		}
	case "duplicate-types-other-notation":
		// the same name declared with two different schema notations (jsight / regex / any / empty)
		nots := [][2]string{{" regex\n  /ab+/", "\n  {\"a\": 1}"}, {"\n  {\"a\": 1}", " regex\n  /ab+/"}, {"\n  {\"a\": 1}", " any"}, {" any", " regex\n  /x/"}, {" regex\n  /x/", " any"}, {" any", "\n  [1]"}}
		for i := 0; i < k; i++ {
			p := nots[(n+i)%len(nots)]
			fmt.Fprintf(&sb, "TYPE @dupN%d_%d%s\nTYPE @dupN%d_%d%s\n", n, i, p[0], n, i, p[1])
		}
	case "duplicate-enums":
		for i := 0; i < k; i++ {
			fmt.Fprintf(&sb, "ENUM @dupE%d_%d\n  [\"a\"]\nENUM @dupE%d_%d\n  [\"b\"]\n", n, i, n, i)
		}
	case "duplicate-tags":
		for i := 0; i < k; i++ {
			fmt.Fprintf(&sb, "TAG @dupG%d_%d\nTAG @dupG%d_%d\n", n, i, n, i)
		}
	case "duplicate-servers":
		for i := 0; i < k; i++ {
			fmt.Fprintf(&sb, "SERVER @dupS%d_%d\n  BaseUrl \"https://a.example/\"\nSERVER @dupS%d_%d\n  BaseUrl \"https://b.example/\"\n", n, i, n, i)
		}
	case "duplicate-macros":
		for i := 0; i < k; i++ {
			fmt.Fprintf(&sb, "MACRO @dupM%d_%d\n(\n  200 any\n)\nMACRO @dupM%d_%d\n(\n  201 any\n)\n", n, i, n, i)
		}
	case "rule-violating-types":
		for i := 0; i < k; i++ {
			fmt.Fprintf(&sb, "TYPE @rv%d_%d\n  {\n    \"x\": 1 // {min: %d}\n  }\n", n, i, 5+i)
		}
	case "allof-missing":
		fmt.Fprintf(&sb, "TYPE @ao%d\n  { // {allOf: [\"@miss%da\", \"@miss%db\", \"@miss%dc\"]}\n    \"x\": 1\n  }\nGET /zao%d\n  200 @ao%d\n", n, n, n, n, n, n)
	case "mutual-bad-types":
		fmt.Fprintf(&sb, "TYPE @mb%da\n  {\n    \"b\": @mb%db,\n    \"x\": 1 // {min: 5}\n  }\nTYPE @mb%db\n  {\n    \"a\": @mb%da,\n    \"y\": 1 // {min: 7}\n  }\nTYPE @mb%dc\n  {\n    \"a\": @mb%da,\n    \"b\": @mb%db,\n    \"z\": 1 // {min: 9}\n  }\n", n, n, n, n, n, n, n)
	case "duplicate-children":
		// a child directive that its parent takes once, given twice: every parent has its own
		// "already defined" path in the catalog setters (seeded change C01-t: the one of TAG)
		forms := []string{
			"TAG @dc%[1]d\n  Description\n    first\n  Description\n    second\nGET /dc%[1]d\n  Tags @dc%[1]d\n  200 any\n",
			"GET /dc%[1]d\n  Description\n    first\n  Description\n    second\n  200 any\n",
			"GET /dc%[1]d\n  Request any\n  Request any\n  200 any\n",
			"GET /dc%[1]d\n  Query\n    {\"a\": 1}\n  Query\n    {\"b\": 2}\n  200 any\n",
			"GET /dc%[1]d/{id}\n  Path\n    {\"id\": 1}\n  Path\n    {\"id\": 2}\n  200 any\n",
			"GET /dc%[1]d\n  OperationId dcA%[1]d\n  OperationId dcB%[1]d\n  200 any\n",
			"TAG @dct%[1]d\nGET /dc%[1]d\n  Tags @dct%[1]d\n  Tags @dct%[1]d\n  200 any\n",
			"URL /dcj%[1]d\n  Protocol json-rpc-2.0\n  Method m%[1]d\n    Params\n      {}\n    Params\n      {}\n    Result\n      {}\n",
			"URL /dcj%[1]d\n  Protocol json-rpc-2.0\n  Method m%[1]d\n    Params\n      {}\n    Result\n      {}\n    Result\n      {}\n",
			"URL /dcj%[1]d\n  Protocol json-rpc-2.0\n  Protocol json-rpc-2.0\n  Method m%[1]d\n    Params\n      {}\n    Result\n      {}\n",
			"URL /dcj%[1]d\n  Protocol json-rpc-2.0\n  Method m%[1]d\n    Description\n      a\n    Description\n      b\n    Params\n      {}\n    Result\n      {}\n",
			"GET /dc%[1]d\n  Request\n    Headers\n      {\"X\": \"a\"}\n    Headers\n      {\"X\": \"b\"}\n    Body any\n  200 any\n",
			"GET /dc%[1]d\n  200\n    Headers\n      {\"X\": \"a\"}\n    Headers\n      {\"X\": \"b\"}\n    Body any\n",
			"SERVER @dcs%[1]d\n  BaseUrl \"https://a.example\"\n  BaseUrl \"https://b.example\"\n",
			"TAG @dcn%[1]d\n  TAG @dcn%[1]dx\n    Description\n      a\n    Description\n      b\nGET /dc%[1]d\n  Tags @dcn%[1]dx\n  200 any\n",
		}
		fmt.Fprintf(&sb, forms[r.Intn(len(forms))], n)
	case "duplicate-operation-ids":
		for i := 0; i < k; i++ {
			fmt.Fprintf(&sb, "GET /zo%d_%da\n  OperationId dupOp%d_%d\n  200 any\nGET /zo%d_%db\n  OperationId dupOp%d_%d\n  200 any\n", n, i, n, i, n, i, n, i)
		}
	case "duplicate-paths":
		for i := 0; i < k; i++ {
			fmt.Fprintf(&sb, "GET /zp%d_%d\n  200 any\nGET /zp%d_%d\n  201 any\n", n, i, n, i)
		}
	case "similar-paths":
		for i := 0; i < k; i++ {
			fmt.Fprintf(&sb, "GET /zs%d_%d/{a}\n  200 any\nGET /zs%d_%d/{b}\n  200 any\n", n, i, n, i)
		}
	case "check-errors-in-type-cycle":
		// user types in a reference cycle, two of them with an example that violates its own rule
		// (found when the types are checked): which of the two is reported?
		fmt.Fprintf(&sb, "TYPE @ccA%[1]d\n{\n  \"b\": @ccB%[1]d, // {optional: true}\n  \"c\": @ccC%[1]d, // {optional: true}\n  \"x\": 5 // {min: 10}\n}\nTYPE @ccB%[1]d\n{\n  \"a\": @ccA%[1]d, // {optional: true}\n  \"y\": 7 // {min: 20}\n}\nTYPE @ccC%[1]d\n{\n  \"a\": @ccA%[1]d // {optional: true}\n}\n", n)
	case "allof-duplicate-key-cycle":
		// two user types that are each invalid through an allOf duplicate key, and a reference cycle
		// that puts both into one schema's list of types (which of the two is reported?)
		fmt.Fprintf(&sb, "TYPE @dkBad1_%[1]d\n{ // {allOf: [\"@dkBase%[1]d\", \"@dkMid%[1]d\"]}\n}\nTYPE @dkMid%[1]d\n{ // {allOf: \"@dkBase%[1]d\"}\n}\nTYPE @dkBad2_%[1]d\n{ // {allOf: [\"@dkBase%[1]d\", \"@dkMid%[1]d\"]}\n}\nTYPE @dkBase%[1]d\n{\n  \"k\": @dkBad2_%[1]d | @dkBad1_%[1]d\n}\n", n)
	case "export-failures":
		// accepted by the builder, refused by the OpenAPI exporter - in two or three DIFFERENT ways
		// within one interaction (which failure is reported must not depend on anything ambient):
		// an invalid regular expression (compiled lazily; the exporter panics), a code declared
		// twice with an `empty` body among them, a code declared `empty` twice
		fmt.Fprintf(&sb, "GET /zef%d\n", n)
		ways := r.Perm(3)
		for i := 0; i < r.Range(2, 3); i++ {
			code := 200 + 100*i + n%7
			switch ways[i] {
			case 0:
				fmt.Fprintf(&sb, "  %d regex\n    /a(%d/\n", code, n)
			case 1:
				fmt.Fprintf(&sb, "  %d\n    {\"a\": %d}\n  %d empty\n", code, n, code)
			default:
				fmt.Fprintf(&sb, "  %d empty\n  %d empty\n", code, code)
			}
		}
	case "hostile-paths":
		// URL paths made of unusual segments (empty, ".", "..", "{}", unbalanced braces, percent
		// signs, ...), on stand-alone methods, URL groups and JSON-RPC, with and without Tags
		for i := 0; i < k; i++ {
			sb.WriteString(hostilePathBlock(hostilePath(r), r.Intn(pathForms), n*10+i))
		}
	case "notation-mix":
		// a user type of every notation and shape (regex, any, scalar, array, null, empty object, a
		// reference chain that ends in one of those, an ENUM name) referenced from every place that
		// takes a type: most places assume an object written in the jsight notation
		decl := []string{" regex\n  /ab+/", " any", "\n  1", "\n  \"s\"", "\n  [1, 2]", "\n  null", "\n  {}", "\n  @nmB%d", " empty", "\n  true // {nullable: true}", "\n  {\"id\": 1} // {additionalProperties: true}",
			"\n  @nmA%d // {nullable: true}", "\n  @nmB%d // {nullable: true}", " regex\n  /\\x01z/", " regex\n  /[\\x00-\\x1f]{2}/", " regex\n  /[^\\x00-\\x7F]/", " regex\n  /[\\x{10000}-\\x{10FFFF}]x/", " regex\n  /([^\\x00-\\x7F]+|abc)/", " regex\n  /x[^\\x00-\\x7F]?/"}
		d := decl[r.Intn(len(decl))]
		if strings.Contains(d, "%d") {
			d = fmt.Sprintf(d, n)
		}
		if r.Chance(1, 6) {
			// a union that reaches itself through another type (accepted by the builder)
			fmt.Fprintf(&sb, "TYPE @nmA%d\n  @nmB%d | @nmS%d\nTYPE @nmB%d\n  @nmA%d | @nmS%d\nTYPE @nmS%d\n  1\n", n, n, n, n, n, n, n)
		} else {
			fmt.Fprintf(&sb, "TYPE @nmA%d%s\n", n, d)
			fmt.Fprintf(&sb, "TYPE @nmB%d%s\n", n, decl[r.Intn(7)])
		}
		fmt.Fprintf(&sb, "ENUM @nmE%d\n  [\"a\", \"b\"]\n", n)
		t := fmt.Sprintf("@nmA%d", n)
		if r.Chance(1, 8) {
			t = fmt.Sprintf("@nmE%d", n) // an ENUM name where a TYPE name is expected
		}
		uses := []string{
			"GET /znm%[1]d/{id}\n  Path\n    %[2]s\n  200 any\n",
			"GET /znm%[1]d/{id}\n  Path\n    {\"id\": %[2]s}\n  200 any\n",
			"GET /znm%[1]d/{id}\n  Path\n    { // {allOf: \"%[2]s\"}\n      \"id\": 1\n    }\n  200 any\n",
			"URL /znm%[1]d/{id}\n  Path\n    %[2]s\n  GET\n    200 any\n  POST\n    Path\n      %[2]s\n    200 any\n",
			"URL /znm%[1]d/{id}\n  Path\n    {\"id\": %[2]s}\n  GET\n    200 any\n  DELETE\n    200 any\n",
			"GET /znm%[1]d\n  Query \"a=1\"\n    %[2]s\n  200 any\n",
			"GET /znm%[1]d\n  Query \"a=1\"\n    { // {allOf: \"%[2]s\"}\n      \"a\": 1\n    }\n  200 any\n",
			"POST /znm%[1]d\n  Request\n    Headers\n      %[2]s\n    Body %[2]s\n  200\n    Headers\n      %[2]s\n    Body any\n",
			"POST /znm%[1]d\n  Request %[2]s\n  200 %[2]s\n  201\n    [%[2]s]\n",
			"TYPE @nmU%[1]d\n  %[2]s\nTYPE @nmV%[1]d\n  {\"a\": %[2]s | @nmB%[1]d, \"b\": [%[2]s]}\nGET /znm%[1]d\n  200 @nmU%[1]d\n  201 @nmV%[1]d\n",
			"TYPE @nmU%[1]d\n  { // {allOf: [\"%[2]s\", \"@nmB%[1]d\"]}\n    \"z\": 1\n  }\nGET /znm%[1]d\n  200 @nmU%[1]d\n",
			"URL /znm%[1]d\n  Protocol json-rpc-2.0\n  Method nm%[1]d\n    Params\n      %[2]s\n    Result\n      %[2]s\n",
			"GET /znm%[1]d\n  200\n    {\"a\": 1 // {or: [\"%[2]s\", \"@nmB%[1]d\"]}\n    }\n",
			"GET /znm%[1]d\n  200\n    {\"a\": \"a\" // {enum: %[2]s}\n    }\n",
			"GET /znm%[1]d\n  200\n    {\"a\": 1 // {type: \"%[2]s\"}\n    }\n",
			"GET /znm%[1]d\n  200\n    {%[2]s: 1}\n",
		}
		for i := 0; i < r.Range(1, 2); i++ {
			ui := r.Intn(len(uses))
			if r.Chance(1, 3) {
				ui = r.Intn(5) // the Path directive is where most of the unchecked assumptions about types were found
			}
			fmt.Fprintf(&sb, strings.Replace(uses[ui], "znm%[1]d", fmt.Sprintf("znm%%[1]d_%d", i), -1), n, t)
		}
	case "path-bad-user-types":
		fmt.Fprintf(&sb, "TYPE @pb%da\n  1 // {min: 5}\nTYPE @pb%db\n  1 // {min: 7}\nGET /zpb%d/{id}/{k}\n  Path\n    {\"id\": @pb%da, \"k\": @pb%db}\n  200 any\n", n, n, n, n, n)
	case "undefined-types-many-types":
		for i := 0; i < k; i++ {
			fmt.Fprintf(&sb, "TYPE @um%d_%d\n  {\"x\": @nope%d_%d}\n", n, i, n, i)
		}
		fmt.Fprintf(&sb, "GET /zum%d\n  200\n    {\"a\": @um%d_0, \"b\": @um%d_1}\n", n, n, n)
	case "undefined-macros":
		if !r.Chance(1, 2) {
			fmt.Fprintf(&sb, "GET /zm%d\n  200 any\n  PASTE @nomacro%da\n  PASTE @nomacro%db\n", n, n, n)
		} else {
			// near misses of macros the valid part of the project may define (@errs, @errs2, ...)
			fmt.Fprintf(&sb, "MACRO @nmac%da\n(\n  404 any\n)\nMACRO @nmac%db\n(\n  405 any\n)\nGET /zmn%d\n  200 any\n  PASTE %s\n", n, n, n, []string{"@err", "@errs9", fmt.Sprintf("@nmac%d", n), fmt.Sprintf("@nmac%dc", n)}[r.Intn(4)])
		}
	case "bad-enum-bodies":
		for i := 0; i < k; i++ {
			fmt.Fprintf(&sb, "ENUM @be%d_%d\n  [\"a\", \"a\"]\n", n, i)
		}
	case "path-parameters-redefined":
		fmt.Fprintf(&sb, "URL /zpd%d/{x}/b/{y}\n  Path\n    {\"x\": 1, \"y\": 2}\n  GET\n    200 any\nGET /zpd%d/{x}/b/{y}/c/{z}\n  Path\n    {\"x\": 3, \"y\": 4, \"z\": 5}\n  200 any\n", n, n)
	case "empty-path-parameter":
		fmt.Fprintf(&sb, "GET /zep%d/{}\n  200 any\n", n)
	case "repeated-path-parameter":
		fmt.Fprintf(&sb, "GET /zrp%d/{x}/b/{x}\n  200 any\n", n)
	case "request-without-body":
		fmt.Fprintf(&sb, "POST /zrq%d\n  Request\n    Headers\n      {\"X-A\": \"y\"}\n  200 any\n", n)
	case "response-without-body":
		// any response code (the "no content" ones included), followed by one of the things that
		// may come after a response which has no body at all
		code := []int{200, 204, 304, 404, 100 + r.Intn(500)}[r.Intn(5)]
		after := []string{"    Headers\n      {\"X-B\": \"y\"}\n", "", "POST /zrs%[1]dp\n  200 any\n", "  PASTE @zrsm%[1]d\nMACRO @zrsm%[1]d\n(\n  500 any\n)\n", "  (\n  )\n"}[r.Intn(5)]
		fmt.Fprintf(&sb, "GET /zrs%d\n  %d\n", n, code)
		if strings.Contains(after, "%[1]d") {
			fmt.Fprintf(&sb, after, n)
		} else {
			sb.WriteString(after)
		}
	case "headers-not-object":
		fmt.Fprintf(&sb, "GET /zho%d\n  200\n    Headers\n      [1, 2]\n    Body\n      {\"a\": 1}\n", n)
	default:
		panic("unknown defect kind " + kind)
	}
	return sb.String()
}

// pathTokens: the segment alphabet of hostile URL paths.
var pathTokens = []string{"", ".", "..", "{}", "{a}", "{a}{b}", "{", "}", "a", "a.b", "%", "%2F", "{a", "a}", "*", "~", " ", "é", "{a}.json", "-", "a b"}

func hostilePath(r *Rand) string {
	n := r.Range(1, 4)
	p := ""
	for i := 0; i < n; i++ {
		p += "/" + pathTokens[r.Intn(len(pathTokens))]
	}
	if r.Chance(1, 4) {
		p += "/"
	}
	if r.Chance(1, 10) {
		p = strings.TrimPrefix(p, "/")
	}
	return p
}

// pathEnumCount / genPathEnum: every path of 1..maxTok tokens, with and without a trailing
// slash, in each of the six settings.
func pathEnumCount(maxTok int) int {
	n, pw := 0, 1
	for l := 1; l <= maxTok; l++ {
		pw *= len(pathTokens)
		n += pw
	}
	return n * 2 * pathForms
}

func genPathEnum(index int) *Project {
	form, slash, q := index%pathForms, (index/pathForms)%2, index/(2*pathForms)
	l, pw := 1, len(pathTokens)
	for q >= pw {
		q -= pw
		pw *= len(pathTokens)
		l++
	}
	path := ""
	for i := 0; i < l; i++ {
		path += "/" + pathTokens[q%len(pathTokens)]
		q /= len(pathTokens)
	}
	if slash == 1 {
		path += "/"
	}
	p := &Project{Kind: "path-enum", Root: "root.jst", Name: fmt.Sprintf("path:%q/%d", path, form)}
	p.Files = []GenFile{{Path: "root.jst", Data: []byte("JSIGHT 0.3\n" + hostilePathBlock(path, form, 1))}}
	return p
}

// hostilePathBlock renders one path in one of six settings.
func hostilePathBlock(p string, form, n int) string {
	if strings.ContainsAny(p, " ") {
		p = "\"" + p + "\""
	}
	switch form {
	case 0:
		return fmt.Sprintf("GET %s\n  200 any\n", p)
	case 1:
		return fmt.Sprintf("URL %s\n  GET\n    200 any\n  POST\n    200 any\n", p)
	case 2:
		return fmt.Sprintf("URL %s\n  Protocol json-rpc-2.0\n  Method m%d\n    Params\n      {}\n    Result\n      1\n", p, n)
	case 3:
		return fmt.Sprintf("TAG @hp%d\nGET %s\n  Tags @hp%d\n  200 any\n", n, p, n)
	case 4:
		return fmt.Sprintf("GET %s\n  200 any\nDELETE %s\n  200 any\n", p, p)
	case 5:
		return fmt.Sprintf("URL %s\n  GET\n    200 any\nPOST %s\n  200 any\n", p, p)
	case 6:
		// the same path served over HTTP and over JSON-RPC, HTTP first
		return fmt.Sprintf("GET %s\n  200 any\nURL %s\n  Protocol json-rpc-2.0\n  Method m%d\n    Params\n      {}\n    Result\n      1\n", p, p, n)
	default:
		return fmt.Sprintf("URL %s\n  Protocol json-rpc-2.0\n  Method m%d\n    Params\n      {}\n    Result\n      1\nPUT %s\n  200 any\n", p, n, p)
	}
}

// pathForms: the number of settings hostilePathBlock knows.
const pathForms = 8

// competingKinds: the defect kinds of which several instances compete for "which error is
// reported" (each sits behind a map-iteration site or a first-error-wins loop). The kinds added
// later for C01 (one unusual construct that crashes) are not among them. C06 draws three quarters
// of its multi-defect projects from this pool only.
var competingKinds = func() (out []string) {
	solo := map[string]bool{"notation-mix": true, "hostile-paths": true, "export-failures": true}
	for _, k := range defectKinds {
		if !solo[k] {
			out = append(out, k)
		}
	}
	return out
}()

// competingOnly is set by the C06 generator around its call (single-task generation).
var competingOnly bool

// genMultiDefect: a valid project plus 2-4 independent defect blocks (kinds may repeat with
// different names), appended to the root file or to one of its included files.
func genMultiDefect(r *Rand) *Project { return genDefects(r, r.Range(2, 4)) }

// genSingleDefect: one defect block only - nothing found in an earlier phase of the builder masks
// it. A quarter of them are the notation mix (11 declarations x 15 places of use).
func genSingleDefect(r *Rand) *Project { return genDefects(r, 1) }

func genDefects(r *Rand, n int) *Project {
	p := genValid(r.Fork())
	p.Kind = "multi-defect"
	if n == 1 {
		p.Kind = "single-defect"
		if r.Chance(1, 3) {
			// nothing but the block: in a larger project another use of the same type or name may
			// be refused first (an invalid regular expression is reported, as an ordinary error, as
			// soon as any schema that mentions the type is loaded - which hid the panic of F22)
			p = &Project{Kind: "single-defect", Root: "root.jst", Files: []GenFile{{Path: "root.jst", Data: []byte("JSIGHT 0.3\n")}}, Features: []string{"bare"}}
		}
	}
	p.Valid = false
	var kinds []string
	// Defects only compete for "which error is reported" when they are found in the same phase
	// of the builder. 1/3: several defects of ONE kind; 1/3: several kinds of ONE phase group;
	// 1/3: any kinds.
	mode := r.Pick2(0, 1, 1, 2) // half of them: several kinds of ONE phase (they compete for "which error is reported")
	pool := defectKinds
	if competingOnly && n > 1 {
		pool = competingKinds
	}
	k0 := pool[r.Intn(len(pool))]
	grp := defectGroups[r.Intn(len(defectGroups))]
	for i := 0; i < n; i++ {
		switch mode {
		case 0:
			kinds = append(kinds, k0)
		case 1:
			kinds = append(kinds, grp[(i+int(r.s%7))%len(grp)])
		default:
			kinds = append(kinds, pool[r.Intn(len(pool))])
		}
	}
	if n == 1 && r.Chance(1, 4) {
		kinds[0] = "notation-mix"
	}
	for i, k := range kinds {
		block := defectBlock(k, i, r)
		fi := 0
		if len(p.Files) > 1 && r.Chance(1, 3) {
			// only into files that are included at top level exactly once would be safe in general;
			// the root is always safe. Included files may be included inside a method - appending
			// top-level blocks there changes the error but it is still a deterministic project.
			fi = r.Intn(len(p.Files))
		}
		f := &p.Files[fi]
		nl := "\n"
		if f.CRLF {
			nl = "\r\n"
			block = strings.ReplaceAll(block, "\n", "\r\n")
		}
		s := string(f.Data)
		if !strings.HasSuffix(s, nl) {
			s += nl
		}
		f.Data = []byte(s + block)
		p.Features = append(p.Features, "defect:"+k)
		if r.Chance(1, 15) && !strings.HasPrefix(s, "\xef\xbb\xbf") {
			// the file that holds the defect starts with a UTF-8 byte order mark (what Windows editors
			// write): every position in that file is 3 bytes further than in the text after the mark
			f.Data = append([]byte("\xef\xbb\xbf"), f.Data...)
			p.Features = append(p.Features, "bom-file")
		}
	}
	if r.Chance(1, 6) {
		addWrongBaseInclude(p, r)
	}
	return p
}

// addWrongBaseInclude: the classic mistake - a file in a subdirectory names its INCLUDE relative
// to the project root (or to a directory above it) instead of to itself. The target exists, only
// not where the parameter points: the build must fail with "does not exist" whatever the
// working directory of the process is (C06 varies it, with the root named by its absolute path).
func addWrongBaseInclude(p *Project, r *Rand) {
	root := p.File(p.Root)
	if root == nil {
		return
	}
	param := []string{"wbouter.jst", "p/wbouter.jst", projDir + "/wbouter.jst", "./wbouter.jst"}[r.Intn(4)]
	if r.Chance(1, 3) {
		param = "\"" + param + "\""
	}
	nl := "\n"
	if root.CRLF {
		nl = "\r\n"
	}
	s := string(root.Data)
	if !strings.HasSuffix(s, nl) {
		s += nl
	}
	root.Data = []byte(s + "INCLUDE wb/inner.jst" + nl)
	p.Files = append(p.Files,
		GenFile{Path: "wb/inner.jst", Data: []byte("TAG @wbInner\nINCLUDE " + param + "\n")},
		GenFile{Path: "wbouter.jst", Data: []byte("TAG @wbOuter\n")})
	p.Features = append(p.Features, "defect:include-wrong-base")
}
