package main

import (
	"bytes"
	"fmt"
	"path"
	"strings"
	"unicode/utf8"
)

// Reference model of INCLUDE resolution, written from the property text (C14) and the
// language's lexical rules for directive parameters; it shares no code with core/include.go.
//
// It reads the bytes the disk actually served, finds the INCLUDE directives (line-anchored),
// walks them depth-first in order and checks that the access log is a prefix of the predicted
// access sequence (refinement). It also reconstructs the dynamic include tree for C07.

type incLine struct {
	line   int    // 1-based line of the INCLUDE keyword
	off    int    // byte offset of the keyword
	param  string // unquoted parameter
	status string // ok | lex-error | abstain | no-param
	end    int    // where the directive ends when it is longer than the keyword's line (a block comment in front of the parameter); 0 otherwise
}

// lineConvention: "lf", "crlf", "cr", "none" (no line ending at all) or "mixed".
func lineConvention(data []byte) string {
	lf, crlf, cr := 0, 0, 0
	for i := 0; i < len(data); i++ {
		switch data[i] {
		case '\r':
			if i+1 < len(data) && data[i+1] == '\n' {
				crlf++
				i++
			} else {
				cr++
			}
		case '\n':
			lf++
		}
	}
	switch {
	case lf+crlf+cr == 0:
		return "none"
	case crlf == 0 && cr == 0:
		return "lf"
	case lf == 0 && cr == 0:
		return "crlf"
	case lf == 0 && crlf == 0:
		return "cr"
	}
	return "mixed"
}

// lineCol recomputes line and column (1-based, in bytes) of index idx independently of the
// library: a line ends at LF, CRLF or CR (one convention per file; ok == false for mixed files).
func lineCol(data []byte, idx int) (line, col int, ok bool) {
	conv := lineConvention(data)
	if conv == "mixed" {
		return 0, 0, false
	}
	line = 1
	startOfLine := 0
	for i := 0; i < idx && i < len(data); i++ {
		switch conv {
		case "lf", "crlf":
			if data[i] == '\n' {
				line++
				startOfLine = i + 1
			}
		case "cr":
			if data[i] == '\r' {
				line++
				startOfLine = i + 1
			}
		}
	}
	return line, idx - startOfLine + 1, true
}

// findIncludes: INCLUDE directives are line-anchored. Any of LF, CRLF, CR ends a line (the
// scanner treats both bytes as line breaks); line numbers follow the file's convention
// (0 when the file mixes conventions).
func findIncludes(data []byte) []incLine {
	var out []incLine
	conv := lineConvention(data)
	start := 0
	for i := 0; i <= len(data); i++ {
		if i == len(data) || data[i] == '\n' || data[i] == '\r' {
			l := string(data[start:i])
			trimmed := strings.TrimLeft(l, " \t")
			if strings.HasPrefix(trimmed, "INCLUDE") {
				rest := trimmed[len("INCLUDE"):]
				off := start + (len(l) - len(trimmed))
				ln := 0
				if conv != "mixed" {
					ln, _, _ = lineCol(data, off)
				}
				if tr := strings.TrimLeft(rest, " \t"); strings.HasPrefix(tr, "###") && (rest == tr || rest[0] == ' ' || rest[0] == '\t' || rest[0] == '#') {
					// a block comment between the keyword and its parameter: it ends at the next "###",
					// possibly lines further down; the parameter is what follows on that line. The
					// directive stays where its keyword is.
					il := incLine{line: ln, off: off, status: "abstain"}
					open := off + len("INCLUDE") + (len(rest) - len(tr))
					if k := bytes.Index(data[open+3:], []byte("###")); k >= 0 {
						closeAt := open + 3 + k + 3
						j := closeAt
						for j < len(data) && data[j] != '\n' && data[j] != '\r' {
							j++
						}
						if after := string(data[closeAt:j]); after != "" && (after[0] == ' ' || after[0] == '\t') {
							il.param, il.status = lexParam(after)
						}
						i = j
						il.end = j
					}
					out = append(out, il)
				} else if rest == "" || rest[0] == ' ' || rest[0] == '\t' || rest[0] == '#' {
					il := incLine{line: ln, off: off}
					il.param, il.status = lexParam(rest)
					out = append(out, il)
				} else if rest[0] == '/' {
					// INCLUDE/x: a keyword directly followed by '/', the property is silent about it
					out = append(out, incLine{line: ln, off: off, status: "abstain"})
				}
			}
			start = i + 1
		}
	}
	return out
}

// lexParam applies the language's parameter rules to the text after the keyword.
func lexParam(rest string) (string, string) {
	s := strings.TrimLeft(rest, " \t")
	if strings.HasPrefix(s, "###") {
		return "", "abstain" // a block comment in this place: may hide or be followed by anything
	}
	if s == "" || s[0] == '#' {
		return "", "no-param"
	}
	if s[0] == '/' && len(s) > 1 && (s[1] == '/' || s[1] == '*') {
		return "", "abstain" // an annotation, not a parameter
	}
	var param string
	var tail string
	if s[0] == '"' {
		var sb strings.Builder
		i := 1
		closed := false
		for i < len(s) {
			c := s[i]
			if c == '\\' {
				if i+1 < len(s) && (s[i+1] == '\\' || s[i+1] == '"') {
					sb.WriteByte(s[i+1])
					i += 2
					continue
				}
				return "", "lex-error"
			}
			if c == '"' {
				closed = true
				i++
				break
			}
			sb.WriteByte(c)
			i++
		}
		if !closed {
			return "", "lex-error"
		}
		param, tail = sb.String(), s[i:]
		if strings.ContainsAny(param, "\x00\x01\x02\x03\x04\x05\x06\x07\x08\x0b\x0c\x0e\x0f\x10\x11\x12\x13\x14\x15\x16\x17\x18\x19\x1a\x1b\x1c\x1d\x1e\x1f") {
			return "", "abstain" // JSON-style unquoting of control characters is the library's business
		}
		if !utf8.ValidString(param) {
			return "", "abstain" // ... and so is what it makes of invalid UTF-8 inside quotes (U+FFFD)
		}
	} else {
		i := 0
		for i < len(s) && s[i] != ' ' && s[i] != '\t' && s[i] != '#' {
			i++
		}
		param, tail = s[:i], s[i:]
	}
	t := strings.TrimLeft(tail, " \t")
	if t != "" && t[0] != '#' {
		return param, "abstain" // a second parameter or an annotation: the property does not speak about it
	}
	if strings.ContainsRune(param, '\r') || strings.ContainsRune(param, 0) {
		return param, "abstain"
	}
	return param, "ok"
}

// refusedParam: absolute paths, any "." or ".." path segment, and backslashes are refused
// before the file system is consulted.
func refusedParam(p string) bool {
	if strings.HasPrefix(p, "/") || strings.Contains(p, "\\") {
		return true
	}
	for _, seg := range strings.Split(p, "/") {
		if seg == "." || seg == ".." {
			return true
		}
	}
	return false
}

// Instance is one file instance in the dynamic include tree.
type Instance struct {
	Path    string
	Data    []byte
	Parent  *Instance
	AtLine  int // line of the INCLUDE in the parent
	ReadSeq int
}

type modelResult struct {
	violation string // "" or description (C14)
	class     string
	abstained bool   // the model met something the property does not speak about and stopped predicting
	sawCycle  bool   // an instance with the same path AND the same bytes was open: a true, endless cycle
	pathCycle bool   // an instance with the same path (any bytes) was open: the implementation may call that recursion
	mustFail  bool   // the build must not have produced a catalog
	failFile  string // if non-empty: the error must be located in this file ...
	failLine  int    // ... at this line (the INCLUDE)
	failOff   int    // byte offset of that INCLUDE keyword in failInst.Data
	failInst  *Instance
	failWhy   string
	instances []*Instance
	open      []*Instance // chain that was open when the log ended (innermost last)
	consumed  int
	includes  int
	depthMax  int
	repeats   int
}

type includeModel struct {
	log []Access
	pos int
	res *modelResult
}

func cleanPath(p string) string { return path.Clean(p) }

// countIn: how many open instances have this path AND were served these bytes. A file that
// is served in another version the second time (a fault changed it mid-build) is not the
// same node of the include graph: the recursion is not infinite.
func countIn(stack []*Instance, p string, data []byte) int {
	n := 0
	for _, s := range stack {
		if cleanPath(s.Path) == cleanPath(p) && string(s.Data) == string(data) {
			n++
		}
	}
	return n
}

// walk returns true when modelling stops (log exhausted, terminal error predicted, abstained).
func (m *includeModel) walk(inst *Instance, stack []*Instance) bool {
	stack = append(stack, inst)
	if len(stack) > m.res.depthMax {
		m.res.depthMax = len(stack)
	}
	for _, il := range findIncludes(inst.Data) {
		m.res.includes++
		located := true // is the error's place prescribed by the property (missing / directory / refused target)?
		fail := func(why string) bool {
			m.res.mustFail = true
			m.res.failWhy = why
			if located {
				m.res.failFile, m.res.failLine, m.res.failOff, m.res.failInst = inst.Path, il.line, il.off, inst
			}
			m.res.open = append([]*Instance(nil), stack...)
			if m.pos < len(m.log) {
				a := m.log[m.pos]
				m.res.violation = fmt.Sprintf("file-system access after an INCLUDE that must fail (%s at %s:%d): %s %q", why, inst.Path, il.line, a.Op, a.Path)
				m.res.class = "access-after-refusal"
			}
			return true
		}
		switch il.status {
		case "abstain":
			m.res.abstained = true
			m.res.open = append([]*Instance(nil), stack...)
			return true
		case "lex-error":
			located = false // a lexical error is reported where the scanner stops, not necessarily on the keyword
			return fail("unterminated or badly escaped parameter")
		case "no-param":
			located = false
			return fail("INCLUDE without a parameter")
		}
		if refusedParam(il.param) {
			return fail(fmt.Sprintf("parameter %q must be refused before the file system is consulted", il.param))
		}
		if il.param == "" || strings.TrimSpace(il.param) == "" {
			// empty name: an error at the INCLUDE; whether the includer's own directory gets stat'ed is not specified
			m.res.mustFail = true
			m.res.failFile, m.res.failLine, m.res.failWhy = inst.Path, il.line, "empty file name"
			m.res.open = append([]*Instance(nil), stack...)
			m.res.abstained = true
			return true
		}
		target := path.Join(path.Dir(inst.Path), il.param)
		if m.pos == len(m.log) {
			// the build stopped before this INCLUDE (an earlier error, or an over-cautious refusal here)
			m.res.mustFail = true
			m.res.open = append([]*Instance(nil), stack...)
			return true
		}
		a := m.log[m.pos]
		if a.Op != "stat" || cleanPath(a.Path) != cleanPath(target) {
			m.res.violation = fmt.Sprintf("unexpected file-system access #%d: %s %q; the model expects stat %q for INCLUDE %q at %s:%d", a.Seq, a.Op, a.Path, target, il.param, inst.Path, il.line)
			m.res.class = "unexpected-access"
			return true
		}
		m.pos++
		if a.Result != "ok" {
			return fail("target " + a.Result)
		}
		if m.pos == len(m.log) {
			m.res.mustFail = true
			m.res.failFile, m.res.failLine, m.res.failWhy = inst.Path, il.line, "build stopped between stat and read"
			m.res.open = append([]*Instance(nil), stack...)
			return true
		}
		b := m.log[m.pos]
		if b.Op != "read" || cleanPath(b.Path) != cleanPath(target) {
			m.res.violation = fmt.Sprintf("unexpected file-system access #%d: %s %q; the model expects read %q after its stat", b.Seq, b.Op, b.Path, target)
			m.res.class = "unexpected-access"
			return true
		}
		m.pos++
		if b.Result != "ok" {
			return fail("read of target failed: " + b.Result)
		}
		k := countIn(stack, target, b.data)
		if k >= 1 {
			m.res.sawCycle = true
		}
		for _, st := range stack {
			if cleanPath(st.Path) == cleanPath(target) {
				m.res.pathCycle = true
			}
		}
		child := &Instance{Path: b.Path, Data: b.data, Parent: inst, AtLine: il.line, ReadSeq: b.Seq}
		m.res.instances = append(m.res.instances, child)
		for _, o := range m.res.instances[:len(m.res.instances)-1] {
			if cleanPath(o.Path) == cleanPath(child.Path) {
				m.res.repeats++
				break
			}
		}
		if k >= 2 {
			// a third nested instance of the same file: the cycle was not reported within one extra lap
			if m.pos < len(m.log) {
				m.res.violation = fmt.Sprintf("include cycle not reported: %q is being included while it is already open %d times (next access: %s %q)", target, k, m.log[m.pos].Op, m.log[m.pos].Path)
				m.res.class = "cycle-not-detected"
				return true
			}
		}
		if m.walk(child, stack) {
			return true
		}
	}
	return false
}

// runIncludeModel: rootPath/rootData describe the root instance; when the root was read
// from disk, log[0] is that read and is consumed here.
func runIncludeModel(log []Access, entry, rootPath string, rootData []byte) *modelResult {
	res := &modelResult{}
	m := &includeModel{log: log, res: res}
	root := &Instance{Path: rootPath, Data: rootData, ReadSeq: -1}
	if entry == "path" {
		if len(log) == 0 {
			res.violation = "the root file was never read"
			res.class = "unexpected-access"
			return res
		}
		a := log[0]
		if a.Op != "read" || cleanPath(a.Path) != cleanPath(rootPath) {
			res.violation = fmt.Sprintf("first file-system access is %s %q, expected read of the root file %q", a.Op, a.Path, rootPath)
			res.class = "unexpected-access"
			return res
		}
		m.pos = 1
		if a.Result != "ok" {
			res.mustFail = true
			res.failWhy = "root file cannot be read: " + a.Result
			if len(log) > 1 {
				res.violation = fmt.Sprintf("file-system access after the root file could not be read: %s %q", log[1].Op, log[1].Path)
				res.class = "access-after-refusal"
			}
			res.consumed = m.pos
			return res
		}
		root.Data = a.data
		root.ReadSeq = 0
	}
	res.instances = append(res.instances, root)
	stopped := m.walk(root, nil)
	res.consumed = m.pos
	if !stopped && m.pos < len(log) {
		a := log[m.pos]
		res.violation = fmt.Sprintf("file-system access #%d not explained by any INCLUDE directive in the served files: %s %q", a.Seq, a.Op, a.Path)
		res.class = "unexpected-access"
	}
	return res
}

// safetyCheck is the model-independent per-access clause of C14.
func safetyCheck(log []Access, rootPath string) (class, msg string) {
	for i, a := range log {
		if i == 0 && a.Op == "read" && a.Path == rootPath {
			continue // the root path is given by the caller, in whatever spelling; the rule is about INCLUDE
		}
		if a.Op != "stat" && a.Op != "read" {
			return "foreign-fs-operation", fmt.Sprintf("access #%d uses %s on %q: the builder is only known to stat and read", a.Seq, a.Op, a.Path)
		}
		raw := a.Path
		for _, seg := range strings.Split(raw, "/") {
			if seg == ".." {
				return "escapes-project", fmt.Sprintf("access #%d: %s %q contains a '..' segment", a.Seq, a.Op, raw)
			}
		}
		c := cleanPath(raw)
		if strings.HasPrefix(raw, "/") || !(strings.HasPrefix(c, projDir+"/") || c == projDir) {
			return "escapes-project", fmt.Sprintf("access #%d: %s %q is not below the project directory %q", a.Seq, a.Op, raw, projDir)
		}
		for _, d := range decoyPaths {
			if c == d {
				return "escapes-project", fmt.Sprintf("access #%d: %s %q touches a decoy outside the project", a.Seq, a.Op, raw)
			}
		}
	}
	return "", ""
}
