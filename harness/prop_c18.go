package main

import (
	"encoding/json"
	"fmt"
	"os"
	"path/filepath"
	"regexp"
	"strings"

	"simrt"
)

// C18 - independent builds and serialisations do not interfere when run concurrently.
//
// Run: 2-4 tasks (real goroutines, exactly one runnable at a time) under the seeded scheduler
// of simrt, -race build. Every sync operation, pool operation and file access of the code under
// test is a scheduling point; the hand-off between tasks is invisible to the race detector
// (mmap'd mailboxes + futex), so the detector sees exactly the synchronisation the code itself
// performs. Scenarios: independent builds+serialisations, one shared catalog serialised by all
// tasks, mixed, cold start (fresh process: package-level lazy initialisation under contention).
// Oracle: every result equals its sequential reference, no race report, no deadlock, no panic.

type c18Engine struct{}

func init() {
	engines["C18"] = c18Engine{}
	evidenceInfo["C18"] = evInfo{
		rule: "one evaluation = one concurrent run: 2-4 tasks with 1-4 operations each (build own project / ToJson / ToJsonIndent / ToOpenAPIJson / ToOpenAPIJsonIndent / Title on an own or a shared catalog), " +
			"schedule decided at every sync/pool/file-access site by the run's seed (strategies: uniform, sticky 1/den, PCT with d<=3 priority change points, run-until-blocked with k<=4 forced preemptions), " +
			"simulated sync.Pool policy isolating/adversarial/random, scenario independent/shared/mixed/cold-start. " +
			"non-trivial = at least one context switch happened; distinct = distinct preemption traces (hash of the (task, site) sequence at which switches happened) combined with the project set",
		components: stdComponents,
		assumptions: []string{
			"reference values are computed sequentially, before the tasks start, on separate instances under the real sync.Pool",
			"interleavings are explored at synchronisation, pool and file-access sites; a race between two plain accesses is still reported by the race detector whatever the granularity, but result corruption that needs a switch between two plain statements with no site nearby would be missed without a race report",
			"the known pool-escape defect of jsight-schema-core is attributed differentially: the same case is re-executed in a fresh process with the pool forced to 'isolating'; only if the violation disappears is it matched to the known finding",
		},
	}
}

func (c18Engine) Plan(tier string) []Phase { return []Phase{{Mode: "random", Share: 1}} }

// validProject for concurrent runs: corpus projects above 12 KB are left to the sequential
// engines - under the race detector with a switch at every other site a single run over them
// takes tens of seconds, which buys fewer schedules, not better ones.
func validProject(r *Rand, corpusShare int) *Project {
	for try := 0; try < 6; try++ {
		p := pickProject(r, corpusShare)
		n := 0
		for _, f := range p.Files {
			n += len(f.Data)
		}
		if n <= 12<<10 {
			return p
		}
	}
	return genValid(r.Fork())
}

func (c18Engine) Gen(job *Job) *Case {
	r := NewRand(job.Seed)
	c := &Case{Prop: "C18", Seed: job.Seed, Entry: "path"}
	cc := &ConcCase{}
	np := r.Range(1, 3)
	// one case in six: every project is REJECTED (one planted defect each, whose error is the
	// same whatever else happens) and the tasks only build - errors are located, quoted and traced
	// at the same time by several builds (seeded change C07-u)
	rejected := r.Chance(1, 6)
	if rejected {
		np = r.Range(2, 3)
	}
	for i := 0; i < np; i++ {
		if rejected {
			p, _ := genPlanted(r.Fork())
			cc.Projects = append(cc.Projects, p)
			continue
		}
		cc.Projects = append(cc.Projects, validProject(r, 30))
	}
	c.Project = cc.Projects[0]
	nt := r.Range(2, 4)
	if job.Tier == "thorough" && r.Chance(1, 3) {
		nt = r.Range(4, 6)
	}
	scenario := []string{"independent", "shared", "mixed", "independent", "shared"}[r.Intn(5)]
	if rejected {
		scenario = "independent"
	}
	if scenario != "independent" {
		cc.Shared = append(cc.Shared, 0)
		if np > 1 && r.Chance(1, 3) {
			cc.Shared = append(cc.Shared, 1)
		}
	}
	for t := 0; t < nt; t++ {
		var tp TaskProg
		shared := scenario == "shared" || (scenario == "mixed" && r.Chance(1, 2))
		if shared {
			pi := cc.Shared[r.Intn(len(cc.Shared))]
			for i := 0; i < r.Range(1, 3); i++ {
				tp.Ops = append(tp.Ops, TaskOp{Kind: "call", Proj: pi, Shared: true, Op: accessors[r.Intn(len(accessors))]})
			}
		} else {
			pi := r.Intn(np)
			bop := TaskOp{Kind: "build", Proj: pi}
			if r.Chance(1, 4) {
				// this task's build bans a directive kind; the others must not notice. The keywords
				// come from a short list, so that tasks share option values (one value per keyword per
				// process, see bannedOption); a build may ban two kinds - two option values
				kw := []string{"TAG", "ENUM", "Description", "SERVER"}
				if r.Chance(1, 3) {
					kw = []string{"MACRO", "PASTE", "TAG", "ENUM", "Description", "Query", "SERVER", "Headers", "INFO"}
				}
				bop.Banned = []string{kw[r.Intn(len(kw))]}
				if r.Chance(1, 2) {
					if k2 := kw[r.Intn(len(kw))]; k2 != bop.Banned[0] {
						bop.Banned = append(bop.Banned, k2)
					}
				}
			}
			tp.Ops = append(tp.Ops, bop)
			for i := 0; i < r.Range(0, 3); i++ {
				tp.Ops = append(tp.Ops, TaskOp{Kind: "call", Proj: pi, Op: accessors[r.Intn(len(accessors))]})
			}
		}
		cc.Tasks = append(cc.Tasks, tp)
	}
	cc.Sched = SchedCfg{Seed: r.U64(), Strategy: []int{simrt.StratUniform, simrt.StratSticky, simrt.StratSticky, simrt.StratSticky, simrt.StratPCT, simrt.StratPCT, simrt.StratPCT, simrt.StratPreemptK, simrt.StratPreemptK, simrt.StratPreemptK}[r.Intn(10)], SwitchDen: r.Pick2(2, 4, 8, 16, 64), ChangePoints: r.Range(1, 4), Horizon: r.Pick2(100, 400, 1500, 4000)}
	if cc.Sched.Strategy == simrt.StratPCT && cc.Sched.ChangePoints > 3 {
		cc.Sched.ChangePoints = 3
	}
	switch k := r.Intn(100); {
	case k < 85:
		cc.Pool = simrt.PoolIsolating
	case k < 93:
		cc.Pool = simrt.PoolAdversarial
	default:
		cc.Pool = simrt.PoolRandom
	}
	cc.Cold = r.Chance(1, 25)
	c.Conc = cc
	c.Note = scenario
	return c
}

var raceFrameRE = regexp.MustCompile(`(?m)^  (\S+)\(\)$`)

// raceSignature extracts the innermost jsightapi frames of the stacks of a race report.
func raceSignature(report string) string {
	var frames []string
	seen := map[string]bool{}
	for _, block := range strings.Split(report, "\n\n") {
		if !(strings.Contains(block, " at 0x") || strings.Contains(block, "Previous ")) {
			continue
		}
		for _, m := range raceFrameRE.FindAllStringSubmatch(block, -1) {
			f := m[1]
			if strings.Contains(f, "jsightapi/") {
				f = f[strings.Index(f, "jsightapi/")+len("jsightapi/"):]
				if !seen[f] {
					seen[f] = true
					frames = append(frames, f)
				}
				break
			}
		}
	}
	sortStrings(frames)
	if len(frames) > 6 {
		frames = frames[:6]
	}
	return strings.Join(frames, " | ")
}

// raceInHarnessOnly: in every report both racing accesses (the top frame of each of the two
// stacks) are made by the harness or the simulator itself, not by code under test or by a
// library called from it. That is a defect of this machinery: harness error, never a violation.
func raceInHarnessOnly(report string) bool {
	n := 0
	for _, rep := range strings.Split(report, "WARNING: DATA RACE")[1:] {
		tops := 0
		for _, block := range strings.Split(rep, "\n\n") {
			first := strings.SplitN(strings.TrimLeft(block, "\n"), "\n", 3)
			if len(first) < 2 || !(strings.Contains(first[0], " at 0x") && (strings.HasPrefix(first[0], "Read ") || strings.HasPrefix(first[0], "Write ") || strings.HasPrefix(first[0], "Previous "))) {
				continue
			}
			top := strings.TrimSpace(first[1])
			if !(strings.HasPrefix(top, "main.") || strings.HasPrefix(top, "simrt.")) {
				return false
			}
			tops++
		}
		if tops < 2 {
			return false
		}
		n++
	}
	return n > 0
}

// knownPoolSites: Get/Put site prefixes of the pools named by recorded known findings.
func knownPoolSites() []string {
	var out []string
	for _, k := range workerKnown {
		out = append(out, k.PoolSites...)
	}
	return out
}

// raceIsBufferEscape: both accesses of the report are made by bytes.Buffer methods (or reads of
// its bytes) reached from the dependency's example builder / OpenAPI marshallers - the users of
// internal/sync.BufferPool.
func raceIsBufferEscape(report string) bool {
	users := strings.Contains(report, "jschema.(*exampleBuilder)") || strings.Contains(report, "/jsoac.") || strings.Contains(report, "internal/sync.(*BufferPool)")
	return users && strings.Contains(report, "bytes.(*Buffer)")
}

type concObs struct {
	results   [][]string // per task, per op: result text
	shorts    [][]string
	report    simrt.Report
	race      string
	harnessEr string
}

func c18Dir(i int) string { return fmt.Sprintf("a/p%d", i) }

func runConc(c *Case, pool simrt.PoolConfig) *concObs {
	cc := c.Conc
	obs := &concObs{}
	shared := map[int]*Outcome{}
	for _, pi := range cc.Shared {
		o := BuildPath(filepath.Join(c18Dir(pi), cc.Projects[pi].Root))
		if !o.OK {
			obs.harnessEr = "shared project does not build"
			return obs
		}
		shared[pi] = o
	}
	obs.results = make([][]string, len(cc.Tasks))
	obs.shorts = make([][]string, len(cc.Tasks))
	fns := make([]func(), len(cc.Tasks))
	for t := range cc.Tasks {
		t := t
		obs.results[t] = make([]string, len(cc.Tasks[t].Ops))
		obs.shorts[t] = make([]string, len(cc.Tasks[t].Ops))
		fns[t] = func() {
			var own *Outcome
			for i, op := range cc.Tasks[t].Ops {
				switch op.Kind {
				case "build":
					own = BuildPath(filepath.Join(c18Dir(op.Proj), cc.Projects[op.Proj].Root), op.Banned...)
					obs.results[t][i] = "build: " + own.Text()
					obs.shorts[t][i] = "build: " + own.Class()
				case "call":
					j := own
					if op.Shared {
						j = shared[op.Proj]
					}
					if j == nil || !j.OK {
						obs.results[t][i] = "no catalog"
						obs.shorts[t][i] = "no catalog"
						continue
					}
					r := call(j.japi, op.Op)
					obs.results[t][i] = op.Op + ": " + r.Text()
					obs.shorts[t][i] = op.Op + ": " + r.Short()
				}
			}
		}
	}
	cfg := simrt.Config{Seed: cc.Sched.Seed, Strategy: cc.Sched.Strategy, SwitchDen: cc.Sched.SwitchDen, ChangePoints: cc.Sched.ChangePoints, Horizon: cc.Sched.Horizon, Pool: pool}
	if cc.Sched.UseReplay {
		cfg.Replay = cc.Sched.Replay
		if cfg.Replay == nil {
			cfg.Replay = []uint8{}
		}
		cfg.PoolReplay = cc.Sched.PoolReplay
	}
	raceDelta()       // discard anything printed before
	simrt.TraceDump() // development aid, see SIMRT_TRACE
	obs.report = simrt.Run(cfg, fns...)
	if f := os.Getenv("SIMRT_TRACE"); f != "" {
		os.WriteFile(fmt.Sprintf("%s.%d.%d", f, os.Getpid(), c.Seed), []byte(strings.Join(simrt.TraceDump(), "\n")), 0o644)
	}
	obs.race = raceDelta()
	return obs
}

func (c18Engine) Exec(c *Case, job *Job) *Result {
	res := &Result{}
	cc := c.Conc
	if cc.Cold && job.Rep == 0 {
		// cold start: the whole run happens in a fresh process
		j2 := &Job{ID: job.ID, Prop: "C18", Seed: c.Seed, Tier: job.Tier, Case: c, Rep: 1, Sample: job.Sample}
		r2, err := runFresh(j2)
		if err != nil {
			if cd, ok := err.(*childDeath); ok {
				// C18 owns process deaths of concurrent runs: same signature as the driver gives
				sig := "process-death"
				if strings.Contains(cd.stderr, "fatal error: stack overflow") {
					sig = "process-death: stack overflow in [" + strings.Join(recursiveFrames(cd.stderr, 3), " | ") + "]"
				} else {
					for _, l := range strings.Split(cd.stderr, "\n") {
						if strings.HasPrefix(l, "fatal error:") || strings.HasPrefix(l, "panic:") {
							sig = "process-death: " + l
							break
						}
					}
				}
				r := &Result{}
				r.violate("process-death", sig, "the cold-start process executing the concurrent run died:\n"+lastLines(cd.stderr, 30))
				r.count("scenario:cold-start", 1)
				return r
			}
			return &Result{Verdict: "harness-error", Msg: err.Error()}
		}
		r2.count("scenario:cold-start", 1)
		return r2
	}
	canonicalEnv()
	simrt.SetOSHook(nil)
	for i, p := range cc.Projects {
		must(MaterialiseAt(c18Dir(i), p.Files))
	}
	// sequential references (skipped in a cold-start child: the reference pass would warm the
	// package-level state; there the references are computed AFTER the concurrent run)
	refs := map[string]string{}
	// References: for every (project, banned set) a task builds with, the build outcome; for every
	// accessor a task calls, the FIRST call on a fresh instance built the same way.
	type variant struct {
		proj   int
		banned []string
	}
	var variants []variant
	seenVar := map[string]bool{}
	addVar := func(pi int, banned []string) {
		k := fmt.Sprintf("%d|%s", pi, strings.Join(banned, ","))
		if !seenVar[k] {
			seenVar[k] = true
			variants = append(variants, variant{pi, banned})
		}
	}
	needed := map[string]bool{}
	taskBanned := make([][]string, len(cc.Tasks))
	for t, tp := range cc.Tasks {
		for _, op := range tp.Ops {
			if op.Kind == "build" {
				taskBanned[t] = op.Banned
				addVar(op.Proj, op.Banned)
			}
		}
		for _, op := range tp.Ops {
			if op.Kind == "call" {
				b := taskBanned[t]
				if op.Shared {
					b = nil
				}
				addVar(op.Proj, b)
				needed[fmt.Sprintf("%d|%s:%s", op.Proj, strings.Join(b, ","), op.Op)] = true
			}
		}
	}
	for _, pi := range cc.Shared {
		addVar(pi, nil)
	}
	computeRefs := func() bool {
		for _, v := range variants {
			vk := fmt.Sprintf("%d|%s", v.proj, strings.Join(v.banned, ","))
			p := cc.Projects[v.proj]
			o := BuildPath(filepath.Join(c18Dir(v.proj), p.Root), v.banned...)
			refs[vk+":build"] = "build: " + o.Text()
			if !o.OK {
				if len(v.banned) == 0 {
					for _, pi := range cc.Shared {
						if pi == v.proj {
							return false // a catalog that tasks are to share, and the project is rejected: nothing to serialise
						}
					}
					res.count("probe:rejected-project-built-concurrently", 1)
				}
				continue
			}
			first := true
			for _, op := range accessors {
				if !needed[vk+":"+op] {
					continue
				}
				fo := o
				if !first {
					fo = BuildPath(filepath.Join(c18Dir(v.proj), p.Root), v.banned...)
				}
				first = false
				refs[vk+":"+op] = op + ": " + call(fo.japi, op).Text()
			}
		}
		return true
	}
	cold := cc.Cold && job.Rep >= 1
	if !cold {
		if !computeRefs() {
			res.Verdict = "skip"
			res.count("skipped:project-rejected", 1)
			return res
		}
	}
	pool := simrt.PoolConfig{Policy: cc.Pool}
	if job.Rep == 2 {
		// differential attribution run: identical case and schedule, but the pools of the recorded
		// finding (and only those) never hand an object to another task
		pool = simrt.PoolConfig{Policy: cc.Pool, IsolateSites: knownPoolSites()}
	}
	obs := runConc(c, pool)
	if obs.harnessEr != "" {
		res.Verdict = "skip"
		res.count("skipped:"+obs.harnessEr, 1)
		return res
	}
	if cold {
		canonicalEnv()
		if !computeRefs() {
			res.Verdict = "skip"
			return res
		}
	}
	rep := obs.report
	if rep.Overflow {
		// a table of the simulator was too small for this project: not a simulation, not a verdict
		res.Verdict = "skip"
		res.count("skipped:simulator-table-overflow", 1)
		return res
	}
	res.Steps = int(rep.Yields)
	res.count("yields", int(rep.Yields))
	res.count("decisions", int(rep.Decisions))
	res.count("switches", int(rep.Switches))
	res.count("tasks", len(cc.Tasks))
	res.count("scenario:"+c.Note, 1)
	res.count(fmt.Sprintf("strategy:%d", cc.Sched.Strategy), 1)
	res.count(fmt.Sprintf("pool-policy:%d", pool.Policy), 1)
	res.count("pool:get-fresh", rep.PoolFresh)
	res.count("pool:get-same-task", rep.PoolSame)
	res.count("probe:pool-cross-task-reuse", rep.PoolCross)
	res.count("probe:blocked-on-lock", int(rep.BlockedOnLock))
	res.count("probe:once-contended", int(rep.BlockedOnOnce))
	if rep.LogTruncated {
		res.count("schedule-log-truncated", 1)
	}
	res.NonTrivial = rep.Switches > 0
	var ph []string
	for _, p := range cc.Projects {
		ph = append(ph, projectHash(p))
	}
	res.Key = fmt.Sprintf("%016x|%s", rep.SwitchHash, strings.Join(ph, ","))

	// ---------- oracle ----------
	var class, sig, msg string
	if rep.Deadlock != "" {
		class, sig, msg = "deadlock", "deadlock", "no task can make progress: "+rep.Deadlock
	}
	if class == "" {
		for t, tp := range cc.Tasks {
			for i, op := range tp.Ops {
				b := taskBanned[t]
				if op.Shared {
					b = nil
				}
				vk := fmt.Sprintf("%d|%s", op.Proj, strings.Join(b, ","))
				key := vk + ":" + op.Op
				if op.Kind == "build" {
					key = fmt.Sprintf("%d|%s:build", op.Proj, strings.Join(op.Banned, ","))
				}
				want, have := refs[key]
				if !have {
					want = "no catalog" // the task's own build is rejected (banned directive): nothing to call
				}
				got := obs.results[t][i]
				if got != want {
					what := op.Kind + " " + op.Op
					if strings.Contains(got, "panic: ") && !strings.Contains(want, "panic: ") {
						class = "panic-under-concurrency"
					} else {
						class = "wrong-result"
					}
					sig = strings.TrimSpace(what)
					if op.Shared {
						sig += " (shared catalog)"
					}
					if addrRE.ReplaceAllString(want, "0xADDR") == addrRE.ReplaceAllString(got, "0xADDR") {
						// equal up to hexadecimal addresses: the result prints a pointer (not an effect of
						// the schedule - the same difference shows between two sequential builds, see C06)
						if loc := addrRE.FindStringIndex(got); loc != nil {
							from := loc[0] - 60
							if from < 0 {
								from = 0
							}
							ctx := got[from:loc[0]]
							if i := strings.LastIndexByte(ctx, '\n'); i >= 0 {
								ctx = ctx[i+1:]
							}
							sig += " differs-only-in-addresses after: " + ctx
						}
					}
					msg = fmt.Sprintf("task %d operation %d (%s on project %d, shared=%v) returned %s under the simulated schedule, running alone it returns %s\n%s",
						t, i, strings.TrimSpace(what), op.Proj, op.Shared, obs.shorts[t][i], trunc(firstLine(want), 80), firstDiff(want, got))
					break
				}
			}
			if class != "" {
				break
			}
		}
	}
	if obs.race != "" && raceInHarnessOnly(obs.race) {
		res.Verdict, res.Msg = "harness-error", "data race between two accesses of the harness itself:\n"+trunc(obs.race, 2000)
		return res
	}
	if obs.race != "" {
		rs := raceSignature(obs.race)
		res.count("race-reports", strings.Count(obs.race, "WARNING: DATA RACE"))
		if class == "" {
			class, sig, msg = "data-race", rs, "the race detector reported:\n"+trunc(obs.race, 3000)
		} else {
			msg += "\nrace detector: " + rs
		}
	}
	if class != "" {
		if job.Rep >= 2 {
			res.violate(class, sig, msg) // attribution child: report what is there
			return res
		}
		// Differential attribution of the recorded pool-escape finding. Rep 2: same schedule, the
		// dependency's buffer pools isolating, every other pool as before - must be clean.
		// Rep 3: same schedule, unchanged - must show the violation again (race detection by
		// ThreadSanitizer is best-effort; without this the "clean" Rep 2 would prove nothing).
		if pool.Policy != simrt.PoolIsolating && class != "deadlock" && job.Rep <= 1 && len(knownPoolSites()) > 0 {
			wc := withReplay(c, rep)
			r2, err2 := runFresh(&Job{ID: job.ID, Prop: "C18", Seed: c.Seed, Tier: job.Tier, Case: wc, Rep: 2})
			r3, err3 := runFresh(&Job{ID: job.ID, Prop: "C18", Seed: c.Seed, Tier: job.Tier, Case: wc, Rep: 3})
			clean2 := err2 == nil && r2.Verdict != "violation"
			repro3 := err3 == nil && r3.Verdict == "violation"
			switch {
			case clean2 && repro3:
				sig = "pool-escape: " + sig
				msg = "attributed to cross-task reuse of a pooled buffer of the dependency that escaped after Put: the replayed schedule shows the violation again, and is clean when only the dependency's buffer pools are isolating\n" + msg
				res.count("attributed:pool-escape(differential)", 1)
			case clean2 && class == "data-race" && raceIsBufferEscape(obs.race):
				sig = "pool-escape: " + sig
				msg = "attributed to the dependency's pooled buffers by the stacks of the race report (the report was not observed again when the schedule was replayed; race detection is best-effort)\n" + msg
				res.count("attributed:pool-escape(by-stack)", 1)
			case !clean2:
				msg += "\n(persists with the dependency's buffer pools isolating: " + r2.Class + " " + r2.Sig + ")"
			}
		}
		res.violate(class, sig, msg)
	}
	if job.Sample || res.Verdict == "violation" {
		var sw []string
		for i, v := range rep.SwitchTrace {
			if i >= 40 {
				sw = append(sw, fmt.Sprintf("... %d more", len(rep.SwitchTrace)-40))
				break
			}
			sw = append(sw, fmt.Sprintf("->task%d@%s", v>>32, simrt.SiteName(uint32(v))))
		}
		res.Detail, _ = json.Marshal(map[string]any{"tasks": cc.Tasks, "results": obs.shorts, "yields": rep.Yields, "decisions": rep.Decisions, "switches": rep.Switches,
			"switch_trace": sw, "trace_hash": fmt.Sprintf("%016x", rep.TraceHash), "deadlock": rep.Deadlock, "pool": []int{rep.PoolFresh, rep.PoolSame, rep.PoolCross}})
	}
	if res.Verdict == "violation" {
		res.Case = withReplay(c, rep) // the replay file carries the concrete schedule
	}
	return res
}

// withReplay returns a copy of the case whose schedule is the recorded decision log.
func withReplay(c *Case, rep simrt.Report) *Case {
	d := cloneCase(c)
	if !rep.LogTruncated {
		d.Conc.Sched.UseReplay = true
		d.Conc.Sched.Replay = append([]uint8(nil), rep.Log...)
		d.Conc.Sched.PoolReplay = append([]uint8(nil), rep.PoolLog...)
	}
	return d
}

func (c18Engine) Shrinks(c *Case) []*Case {
	var out []*Case
	cc := c.Conc
	// fewer tasks
	for t := range cc.Tasks {
		if len(cc.Tasks) <= 2 {
			break
		}
		d := cloneCase(c)
		d.Conc.Tasks = append(d.Conc.Tasks[:t], d.Conc.Tasks[t+1:]...)
		d.Conc.Sched.UseReplay = false // task ids shift: fall back to the seeded strategy
		out = append(out, d)
	}
	// fewer operations
	for t, tp := range cc.Tasks {
		for i := len(tp.Ops) - 1; i >= 0; i-- {
			if len(tp.Ops) <= 1 || (tp.Ops[i].Kind == "build" && i == 0 && len(tp.Ops) > 1) {
				continue
			}
			d := cloneCase(c)
			ops := append([]TaskOp(nil), tp.Ops...)
			d.Conc.Tasks[t].Ops = append(ops[:i], ops[i+1:]...)
			d.Conc.Sched.UseReplay = false
			out = append(out, d)
		}
	}
	// fewer context switches: zero out runs of schedule decisions (0 = keep running the current task)
	if cc.Sched.UseReplay && len(cc.Sched.Replay) > 0 {
		n := len(cc.Sched.Replay)
		for _, chunk := range []int{n / 2, n / 4, n / 8, n / 16} {
			if chunk < 1 {
				continue
			}
			for lo := 0; lo < n; lo += chunk {
				hi := lo + chunk
				if hi > n {
					hi = n
				}
				nz := false
				for _, v := range cc.Sched.Replay[lo:hi] {
					if v != 0 {
						nz = true
					}
				}
				if !nz {
					continue
				}
				d := cloneCase(c)
				rp := append([]uint8(nil), cc.Sched.Replay...)
				for i := lo; i < hi; i++ {
					rp[i] = 0
				}
				d.Conc.Sched.Replay = rp
				out = append(out, d)
			}
		}
		// truncate the tail (exhausted log = 0)
		d := cloneCase(c)
		d.Conc.Sched.Replay = append([]uint8(nil), cc.Sched.Replay[:n/2]...)
		out = append(out, d)
	}
	return out
}
