package main

import (
	"os"
	"path/filepath"
	"sort"
	"strings"

	"simrt"
)

// The repository's own corpus (testdata/**/*.jst of the working tree under test) is used
// unmodified as additional projects. A corpus project is its root file plus every file its
// fault-free build reads (found by building it once through the sim-disk's access log).

type corpusIndex struct {
	roots  []string // paths relative to the corpus dir, sorted
	loaded map[int]*Project
}

var corpus *corpusIndex

func loadCorpusIndex() *corpusIndex {
	if corpus != nil {
		return corpus
	}
	c := &corpusIndex{loaded: map[int]*Project{}}
	if wenv.corpus != "" {
		filepath.Walk(wenv.corpus, func(p string, info os.FileInfo, err error) error {
			if err != nil {
				return nil
			}
			if info.IsDir() {
				b := filepath.Base(p)
				if b == ".unused" || b == "mixins" {
					return filepath.SkipDir
				}
				return nil
			}
			if strings.HasSuffix(p, ".jst") {
				rel, _ := filepath.Rel(wenv.corpus, p)
				c.roots = append(c.roots, rel)
			}
			return nil
		})
		sort.Strings(c.roots)
	}
	corpus = c
	return c
}

type recDisk struct{ reads []string }

func (d *recDisk) Before(op, path, site string) error { return nil }
func (d *recDisk) After(op, path, site string, data []byte, isDir bool, err error) {
	if op == "read" && err == nil {
		d.reads = append(d.reads, path)
	}
}

// corpusProject returns corpus project i (mod size), or nil when the corpus is empty.
func corpusProject(i int) *Project {
	c := loadCorpusIndex()
	if len(c.roots) == 0 {
		return nil
	}
	i %= len(c.roots)
	if p, ok := c.loaded[i]; ok {
		return p.Clone()
	}
	root := filepath.Join(wenv.corpus, c.roots[i])
	rd := &recDisk{}
	simrt.SetOSHook(rd)
	o := BuildPath(root)
	simrt.SetOSHook(nil)
	p := &Project{Name: "corpus/" + c.roots[i], Kind: "corpus", Root: filepath.Base(root), Valid: o.OK}
	dir := filepath.Dir(root)
	seen := map[string]bool{}
	add := func(abs string) {
		rel, err := filepath.Rel(dir, abs)
		if err != nil || strings.HasPrefix(rel, "..") || seen[rel] {
			return
		}
		seen[rel] = true
		if b, err := os.ReadFile(abs); err == nil {
			p.Files = append(p.Files, GenFile{Path: rel, Data: b})
		}
	}
	add(root)
	for _, r := range rd.reads {
		add(r)
	}
	c.loaded[i] = p
	return p.Clone()
}
