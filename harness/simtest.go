package main

import (
	"fmt"
	"os"
	"strings"
	"sync"

	"simrt"
)

// simtest: self-test of the simulator's load-bearing assumptions, run by `./check selftest`
// with a -race build:
//  1. an unsynchronised shared counter incremented by two tasks IS reported by the race
//     detector although the tasks never run at the same time (the scheduler's hand-off creates
//     no happens-before edge), and no update is lost (strict alternation really happened);
//  2. the same counter under a mutex is NOT reported;
//  3. a lock-order inversion is reported as a deadlock by the simulated lock tables;
//  4. a reader re-entering an RWMutex while a writer is pending is reported as a deadlock;
//  5. the same seed gives the same schedule twice, another seed gives another one.
func simtestMain() {
	fail := 0
	check := func(name string, ok bool, detail string) {
		if ok {
			fmt.Printf("simtest %-46s ok   %s\n", name, detail)
		} else {
			fmt.Printf("simtest %-46s FAIL %s\n", name, detail)
			fail++
		}
	}
	raceOn := wenv.raceLog != ""
	run := func(seed uint64, strat int, fns ...func()) simrt.Report {
		return simrt.Run(simrt.Config{Seed: seed, Strategy: strat, SwitchDen: 2, ChangePoints: 3, Horizon: 50, Pool: simrt.PoolConfig{Policy: simrt.PoolIsolating}}, fns...)
	}
	// 1 + 2
	var mu sync.Mutex
	var shared, guarded int
	step := func(locked bool) func() {
		return func() {
			for i := 0; i < 6; i++ {
				if locked {
					simrt.Lock(&mu, "simtest.locked#1")
					guarded++
					simrt.Unlock(&mu, "simtest.locked#2")
				} else {
					simrt.Yield("simtest.racy#1")
					shared++
				}
			}
		}
	}
	raceDelta()
	rep := run(1, simrt.StratUniform, step(false), step(false))
	racy := raceDelta()
	if raceOn {
		check("unsynchronised counter is reported", strings.Contains(racy, "DATA RACE"), fmt.Sprintf("switches=%d", rep.Switches))
	}
	if raceOn {
		// the racing accesses above are made by the harness itself (main.*): such a report is a
		// harness error; one with a frame of the code under test on top is not
		check("a race between two harness accesses is classified as harness-only", raceInHarnessOnly(racy), trunc(racy, 300))
		foreign := "WARNING: DATA RACE\nRead at 0x00c0001 by goroutine 11:\n  main.errInfo()\n      harness/build.go:1 +0x1\n\nPrevious write at 0x00c0001 by goroutine 9:\n  github.com/jsightapi/jsight-api-core/core.(*JApiCore).next()\n      core/x.go:1 +0x1\n\n"
		check("a race with the code under test on one side is not", !raceInHarnessOnly(foreign), "")
	}
	check("no lost update under strict alternation", shared == 12, fmt.Sprintf("shared=%d", shared))
	rep = run(2, simrt.StratUniform, step(true), step(true))
	clean := raceDelta()
	check("mutex-protected counter is not reported", !strings.Contains(clean, "DATA RACE") && guarded == 12, fmt.Sprintf("guarded=%d switches=%d", guarded, rep.Switches))
	// 5
	r1 := run(7, simrt.StratUniform, step(true), step(true), step(true))
	r2 := run(7, simrt.StratUniform, step(true), step(true), step(true))
	r3 := run(8, simrt.StratUniform, step(true), step(true), step(true))
	check("same seed, same schedule", r1.TraceHash == r2.TraceHash && r1.SwitchHash == r2.SwitchHash, fmt.Sprintf("%016x", r1.TraceHash))
	check("other seed, other schedule", r1.TraceHash != r3.TraceHash, fmt.Sprintf("%016x vs %016x", r1.TraceHash, r3.TraceHash))
	rp := simrt.Run(simrt.Config{Replay: r1.Log, Pool: simrt.PoolConfig{Policy: simrt.PoolIsolating}}, step(true), step(true), step(true))
	check("recorded decision log replays the schedule", rp.TraceHash == r1.TraceHash, "")
	// 6: buffered channels of the code under test (a producer, a consumer and a waiter per
	// pipeline; three pipelines; goroutines of their own: task slots are used again)
	pipeline := func(n int, out *int) func() {
		return func() {
			ch := simrt.ChanMake(make(chan int, 2), "simtest.ch#1")
			res := simrt.ChanMake(make(chan int, 1), "simtest.ch#2")
			var wg sync.WaitGroup
			simrt.WGAdd(&wg, 2, "simtest.ch#3")
			simrt.Go(func() {
				defer simrt.WGDone(&wg, "simtest.ch#4")
				for i := 1; i <= n; i++ {
					simrt.ChanSend(ch, i, "simtest.ch#5")
				}
				simrt.ChanClose(ch, "simtest.ch#6")
			}, "simtest.ch#7")
			simrt.Go(func() {
				defer simrt.WGDone(&wg, "simtest.ch#8")
				sum := 0
				for {
					v, ok := simrt.ChanRecv2(ch, "simtest.ch#9")
					if !ok {
						break
					}
					sum += v
				}
				simrt.ChanSend(res, sum, "simtest.ch#10")
			}, "simtest.ch#11")
			simrt.WGWait(&wg, "simtest.ch#12")
			*out = simrt.ChanRecv(res, "simtest.ch#13")
		}
	}
	chanOK, chanReplay := true, true
	chanTraces := map[uint64]bool{}
	raceDelta()
	for seed := uint64(1); seed <= 60; seed++ {
		var got, again [3]int
		c1 := run(seed, int(seed%simrt.NumStrategies), pipeline(10, &got[0]), pipeline(7, &got[1]), pipeline(1, &got[2]))
		if c1.Deadlock != "" || c1.Overflow || got != [3]int{55, 28, 1} {
			chanOK = false
		}
		chanTraces[c1.TraceHash] = true
		c2 := simrt.Run(simrt.Config{Replay: c1.Log, Pool: simrt.PoolConfig{Policy: simrt.PoolIsolating}}, pipeline(10, &again[0]), pipeline(7, &again[1]), pipeline(1, &again[2]))
		if c2.TraceHash != c1.TraceHash || again != got {
			chanReplay = false
		}
	}
	chanRace := raceDelta()
	check("buffered channels: every schedule gives the sequential sums", chanOK, fmt.Sprintf("%d distinct schedules of 60", len(chanTraces)))
	check("buffered channels: decision log replays", chanReplay, "")
	if raceOn {
		check("buffered channels: hand-over is not reported as a race", !strings.Contains(chanRace, "DATA RACE"), trunc(chanRace, 200))
	}
	// three senders, a buffer of one, nobody receives before all have sent (seeded change C01-s)
	stuck := func() {
		errs := simrt.ChanMake(make(chan int, 1), "simtest.stuck#1")
		var wg sync.WaitGroup
		simrt.WGAdd(&wg, 3, "simtest.stuck#2")
		for i := 0; i < 3; i++ {
			i := i
			simrt.Go(func() { defer simrt.WGDone(&wg, "simtest.stuck#3"); simrt.ChanSend(errs, i, "simtest.stuck#4") }, "simtest.stuck#5")
		}
		simrt.WGWait(&wg, "simtest.stuck#6")
	}
	stuckFound := 0
	for seed := uint64(1); seed <= 10; seed++ {
		if r := run(seed, int(seed%simrt.NumStrategies), stuck); strings.Contains(r.Deadlock, "chansend") {
			stuckFound++
		}
	}
	check("full buffered channel with blocked senders is a deadlock", stuckFound == 10, fmt.Sprintf("%d of 10 schedules", stuckFound))
	raceDelta() // (left-over tasks of deadlocked runs: the simulator's own bookkeeping)
	// 3: lock-order inversion (some seed must find it; every report must name both tasks)
	found := false
	for seed := uint64(1); seed <= 40 && !found; seed++ {
		var a, b sync.Mutex
		t1 := func() {
			simrt.Lock(&a, "simtest.ab#1")
			simrt.Lock(&b, "simtest.ab#2")
			simrt.Unlock(&b, "simtest.ab#3")
			simrt.Unlock(&a, "simtest.ab#4")
		}
		t2 := func() {
			simrt.Lock(&b, "simtest.ba#1")
			simrt.Lock(&a, "simtest.ba#2")
			simrt.Unlock(&a, "simtest.ba#3")
			simrt.Unlock(&b, "simtest.ba#4")
		}
		if r := run(seed, simrt.StratUniform, t1, t2); r.Deadlock != "" {
			found = strings.Contains(r.Deadlock, "task0") && strings.Contains(r.Deadlock, "task1")
			// the two goroutines stay parked for ever while holding real mutexes; this process ends soon
		}
	}
	check("lock-order inversion found as deadlock", found, "within 40 seeds")
	// 4: recursive read lock with a pending writer
	found = false
	for seed := uint64(1); seed <= 40 && !found; seed++ {
		var rw sync.RWMutex
		reader := func() {
			simrt.RLock(&rw, "simtest.rr#1")
			simrt.RLock(&rw, "simtest.rr#2")
			simrt.RUnlock(&rw, "simtest.rr#3")
			simrt.RUnlock(&rw, "simtest.rr#4")
		}
		writer := func() {
			simrt.Lock(&rw, "simtest.w#1")
			simrt.Unlock(&rw, "simtest.w#2")
		}
		if r := run(seed, simrt.StratUniform, reader, writer); r.Deadlock != "" {
			found = true
		}
	}
	check("read-lock recursion with pending writer deadlocks", found, "within 40 seeds")
	if fail > 0 {
		os.Exit(2)
	}
}
