package main

import (
	"fmt"
	"os"
	"strings"

	"github.com/jsightapi/jsight-api-core/kit"
	"simrt"
)

var accessors = []string{"ToJson", "ToJsonIndent", "ToOpenAPIJson", "ToOpenAPIJsonIndent", "Title"}

// CallResult is the observable result of one accessor call.
type CallResult struct {
	Bytes   []byte
	Err     string
	Panic   string
	PanicAt string
}

func (c CallResult) Text() string {
	switch {
	case c.Panic != "":
		return "panic: " + c.Panic
	case c.Err != "":
		return "error: " + c.Err
	}
	return string(c.Bytes)
}

func (c CallResult) Short() string {
	switch {
	case c.Panic != "":
		return "panic(" + trunc(c.Panic, 80) + ")"
	case c.Err != "":
		return "error(" + trunc(c.Err, 80) + ")"
	}
	return fmt.Sprintf("%d bytes #%016x", len(c.Bytes), fnv64(string(c.Bytes)))
}

func trunc(s string, n int) string {
	if len(s) > n {
		return s[:n] + "..."
	}
	return s
}

func call(j *kit.JApi, op string) (r CallResult) {
	if dl := asTask(func() { r = callInner(j, op) }); dl != "" {
		r = CallResult{Panic: "DEADLOCK " + dl}
	}
	return r
}

func callInner(j *kit.JApi, op string) (r CallResult) {
	defer func() {
		if x := recover(); x != nil {
			r = CallResult{Panic: fmt.Sprint(x), PanicAt: topRepoFrame()}
		}
	}()
	var b []byte
	var err error
	switch op {
	case "ToJson":
		b, err = j.ToJson()
	case "ToJsonIndent":
		b, err = j.ToJsonIndent()
	case "ToOpenAPIJson":
		b, err = j.ToOpenAPIJson()
	case "ToOpenAPIJsonIndent":
		b, err = j.ToOpenAPIJsonIndent()
	case "Title":
		b = []byte(j.Title())
	default:
		panic("harness: unknown accessor " + op)
	}
	r.Bytes = b
	if err != nil {
		r.Err = err.Error()
	}
	return r
}

// applyEnv installs the simulated environment for single-task code.
func applyEnv(e Env) {
	switch e.MapMode {
	case 0:
		simrt.SetMapOrder(0, 0, nil)
	default:
		simrt.SetMapOrder(e.MapMode, e.MapSeed, e.MapSites)
	}
	simrt.SetAmbient(e.Ambient)
	taskSeed = e.Ambient // goroutines the code under test starts itself are interleaved by this seed
	if e.DropAll {
		simrt.PoolDropAll()
	}
	pol := e.Pool
	if pol == simrt.PoolReal {
		pol = simrt.PoolFreshOnly
	}
	simrt.PoolSimSet(simrt.PoolConfig{Policy: pol})
	if e.Cwd != "" && cwdPrefix != "" {
		if err := os.Chdir(cwdPrefix + e.Cwd); err == nil {
			cwdMoved = true
		}
	}
}

// cwdMoved: the process is not in the worker's own directory (Env.Cwd). Only single-task code
// moves it, and canonicalEnv / Materialise bring it back.
var cwdMoved bool

func resetCwd() {
	if cwdMoved {
		must(os.Chdir(strings.TrimSuffix(cwdPrefix, "/")))
		cwdMoved = false
	}
}

// canonicalEnv: canonical map order, ambient seed 0, and a pool that never reuses anything.
// The real sync.Pool is never used by the harness: which object it returns depends on the P
// the goroutine happens to run on and on GC cycles, neither of which the simulator controls -
// a violation that depends on it would not replay.
func canonicalEnv() {
	resetCwd()
	simrt.SetMapOrder(0, 0, nil)
	simrt.SetAmbient(0)
	taskSeed = 0
	simrt.PoolSimBegin(simrt.PoolConfig{Policy: simrt.PoolFreshOnly}, 0)
}

// firstDiff describes where two texts start to differ.
func firstDiff(a, b string) string {
	n := len(a)
	if len(b) < n {
		n = len(b)
	}
	i := 0
	for i < n && a[i] == b[i] {
		i++
	}
	lo := i - 40
	if lo < 0 {
		lo = 0
	}
	ha, hb := i+60, i+60
	if ha > len(a) {
		ha = len(a)
	}
	if hb > len(b) {
		hb = len(b)
	}
	return fmt.Sprintf("first difference at byte %d:\n  expected ...%q\n  got      ...%q", i, a[lo:ha], b[lo:hb])
}
