package main

import (
	"fmt"
	"os"
	"runtime"
	"strings"
	"sync"

	"simrt"

	"github.com/jsightapi/jsight-api-core/core"
	"github.com/jsightapi/jsight-api-core/directive"

	"github.com/jsightapi/jsight-api-core/jerr"
	"github.com/jsightapi/jsight-api-core/kit"
	"github.com/jsightapi/jsight-schema-core/fs"
)

type ErrInfo struct {
	Msg     string `json:"msg"`
	File    string `json:"file"`
	Index   int    `json:"index"`
	Line    int    `json:"line"`
	Column  int    `json:"column"`
	Quote   string `json:"quote"`
	Full    string `json:"full"` // Error(): message + include trace
	content []byte
	nilFile bool
}

type Outcome struct {
	OK       bool     `json:"ok"`
	Panic    string   `json:"panic,omitempty"`
	PanicAt  string   `json:"panic_at,omitempty"` // innermost frame inside the code under test
	Err      *ErrInfo `json:"err,omitempty"`
	BadValue string   `json:"bad_value,omitempty"` // result is neither a catalog nor a structured error
	StepLim  bool     `json:"step_limit,omitempty"`
	Deadlock string   `json:"deadlock,omitempty"` // goroutines started by the build itself cannot make progress
	japi     *kit.JApi
}

// Class is a short label of the outcome.
func (o *Outcome) Class() string {
	switch {
	case o.Deadlock != "":
		return "deadlock"
	case o.StepLim:
		return "step-limit"
	case o.Panic != "":
		return "panic"
	case o.BadValue != "":
		return "bad-value"
	case o.OK:
		return "catalog"
	default:
		return "error"
	}
}

// Text is the canonical, comparable rendering of a build outcome (C06).
func (o *Outcome) Text() string {
	switch {
	case o.Deadlock != "":
		return "DEADLOCK " + o.Deadlock
	case o.StepLim:
		return "STEP-LIMIT"
	case o.Panic != "":
		return "PANIC " + o.Panic
	case o.BadValue != "":
		return "BAD " + o.BadValue
	case o.OK:
		return "OK"
	}
	e := o.Err
	return fmt.Sprintf("ERR msg=%q file=%q index=%d line=%d col=%d quote=%q full=%q", e.Msg, e.File, e.Index, e.Line, e.Column, e.Quote, e.Full)
}

func errInfo(je *jerr.JApiError) (ei *ErrInfo, bad string) {
	defer func() {
		if r := recover(); r != nil {
			bad = fmt.Sprintf("error value is not usable: %v", r)
		}
	}()
	ei = &ErrInfo{Msg: je.Msg, Index: int(je.Index), Line: int(je.Line), Column: int(je.Column), Quote: je.Quote}
	if je.File == nil {
		ei.nilFile = true
	} else {
		ei.File = relCwd(je.File.Name())
		ei.content = append([]byte(nil), je.File.Content().Data()...)
	}
	ei.Full = je.Error()
	if cwdPrefix != "" {
		// a root given as an absolute path (or as ../<cwd name>/...): the worker's directory is not
		// part of the observation
		wd := strings.TrimSuffix(cwdPrefix, "/")
		up := "../" + wd[strings.LastIndexByte(wd, '/')+1:] + "/"
		for _, pre := range []string{cwdPrefix, up} {
			ei.Full = strings.ReplaceAll(ei.Full, pre, "")
			ei.Msg = strings.ReplaceAll(ei.Msg, pre, "")
		}
	}
	return ei, ""
}

func topRepoFrame() string {
	pcs := make([]uintptr, 64)
	n := runtime.Callers(3, pcs)
	frames := runtime.CallersFrames(pcs[:n])
	for {
		f, more := frames.Next()
		if strings.Contains(f.Function, "jsightapi/") {
			fn := f.Function
			if i := strings.Index(fn, "jsightapi/"); i >= 0 {
				fn = fn[i+len("jsightapi/"):]
			}
			return fmt.Sprintf("%s:%d", fn, f.Line)
		}
		if !more {
			return ""
		}
	}
}

// taskSeed seeds the scheduler for builds and accessor calls that are executed as a single
// task: if the code under test starts goroutines of its own (`go` statements are routed to
// simrt.Go), they become tasks and their interleaving is decided by this seed instead of by
// the Go runtime. Engines set it per repetition / per call.
var taskSeed uint64

// asTask runs f as the only initial task of a simulated run, unless a simulation is already
// attached (concurrent engines call builds from inside their own tasks). Returns the
// scheduler's deadlock description, if any.
func asTask(f func()) string {
	if simrt.Active() {
		f()
		return ""
	}
	rep := simrt.Run(simrt.Config{Seed: taskSeed, Strategy: int(taskSeed % simrt.NumStrategies), SwitchDen: 3, ChangePoints: 2, Horizon: 200,
		Pool: simrt.CurrentPoolConfig(), KeepPool: true}, f)
	return rep.Deadlock
}

func guard(o *Outcome, f func() (kit.JApi, *jerr.JApiError)) {
	if dl := asTask(func() { guardInner(o, f) }); dl != "" {
		o.Deadlock = dl
	}
}

func guardInner(o *Outcome, f func() (kit.JApi, *jerr.JApiError)) {
	defer func() {
		if r := recover(); r != nil {
			if _, ok := r.(stepLimit); ok {
				o.StepLim = true
				return
			}
			o.Panic = fmt.Sprint(r)
			o.PanicAt = topRepoFrame()
		}
	}()
	j, je := f()
	if je != nil {
		ei, bad := errInfo(je)
		o.Err = ei
		if bad != "" {
			o.BadValue = bad
		} else if ei.Msg == "" {
			o.BadValue = "error with empty message"
		}
		return
	}
	if j.Catalog() == nil {
		o.BadValue = "nil catalog without an error"
		return
	}
	o.OK = true
	o.japi = &j
}

// bannedOption turns directive keywords into a core.WithBannedDirectives option (nil for none).
func bannedOption(banned []string) []core.Option {
	if len(banned) == 0 {
		return nil
	}
	// One option VALUE per banned keyword, created once per process and handed to every build
	// that bans it - the way a server holds its configuration. A build that bans two keywords
	// gets two option values. (An option that keeps state of its own between the builds it is
	// given to is what this exposes.)
	var out []core.Option
	for _, b := range banned {
		de, err := directive.NewDirectiveType(b) // code under test: not under the harness lock
		if err != nil {
			continue
		}
		banOptMu.Lock()
		opt, ok := banOpts[b]
		if !ok {
			opt = core.WithBannedDirectives(de)
			banOpts[b] = opt
		}
		banOptMu.Unlock()
		out = append(out, opt)
	}
	return out
}

var (
	banOptMu sync.Mutex
	banOpts  = map[string]core.Option{}
)

// BuildPath builds a project whose root is read from disk.
func BuildPath(root string, banned ...string) *Outcome {
	o := &Outcome{}
	guard(o, func() (kit.JApi, *jerr.JApiError) { return kit.NewJapi(root, bannedOption(banned)...) })
	return o
}

// BuildMem builds a project whose root content is handed over in memory (INCLUDEs still come from disk).
func BuildMem(name string, data []byte, banned ...string) *Outcome {
	o := &Outcome{}
	guard(o, func() (kit.JApi, *jerr.JApiError) {
		return kit.NewJApiFromFile(fs.NewFile(name, data), bannedOption(banned)...)
	})
	return o
}

// spellRoot returns the root path of the project directory in one of several spellings that
// all denote the same file.
// workerDir: the directory the worker started in (not where an Env.Cwd may have moved it).
func workerDir() string {
	if cwdPrefix != "" {
		return strings.TrimSuffix(cwdPrefix, "/")
	}
	wd, _ := os.Getwd()
	return wd
}

func spellRoot(root string, as int) string {
	p := projDir + "/" + root
	switch as {
	case 1:
		return "./" + p
	case 2:
		return projDir + "/./" + root
	case 3:
		return "a//p/" + root
	case 4:
		return "a/q/../p/" + root
	case 5:
		if wd := workerDir(); wd != "" {
			return wd + "/" + p
		}
	case 7:
		// only for a root handed over in memory: its NAME is the project directory itself
		return projDir + "/"
	case 8:
		return projDir + "/."
	case 6:
		// up and down again: ../<name of the working directory>/a/p/root.jst
		if wd := workerDir(); wd != "" {
			return "../" + wd[strings.LastIndexByte(wd, '/')+1:] + "/" + p
		}
	}
	return p
}
