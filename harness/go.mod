module harness

go 1.18
