package main

import (
	"flag"
	"fmt"
	"os"
)

func main() {
	if len(os.Args) < 2 {
		fmt.Fprintln(os.Stderr, "usage: harness drive|worker|oneshot|replay|gentest|build ...")
		os.Exit(2)
	}
	switch os.Args[1] {
	case "drive":
		driveMain()
	case "worker":
		workerMain()
	case "oneshot":
		oneshotMain()
	case "replay":
		replayMain()
	case "dettest":
		dettestMain()
	case "scaletest":
		fl := flag.NewFlagSet("scaletest", flag.ExitOnError)
		workerFlags(fl)
		scaletestMain()
	case "simtest":
		fl := flag.NewFlagSet("simtest", flag.ExitOnError)
		workerFlags(fl)
		simtestMain()
	case "build":
		o := BuildPath(os.Args[2])
		fmt.Println(o.Text(), o.PanicAt)
		if o.OK {
			b, err := o.japi.ToJson()
			fmt.Println(len(b), err)
		}
	case "gentest":
		gentest(os.Args[2:])
	default:
		fmt.Fprintln(os.Stderr, "unknown subcommand", os.Args[1])
		os.Exit(2)
	}
}
