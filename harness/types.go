package main

import (
	"encoding/json"
	"fmt"
	"sort"
)

// Case is one self-contained simulated run: the concrete file tree, the fault plan, the
// operation programs and every seed that decides an environment choice. Executing a Case is a
// pure function of the Case and of the code under test. Replay files are Cases; they do not
// depend on the generator.
type Case struct {
	Prop    string   `json:"prop"`
	Seed    uint64   `json:"seed"`    // run seed this case was generated from (provenance only)
	Project *Project `json:"project"` // file tree, root
	Entry   string   `json:"entry"`   // "path": kit.NewJapi(root path); "mem": kit.NewJApiFromFile(root bytes), INCLUDEs from disk
	Faults  []Fault  `json:"faults,omitempty"`
	Expect  *Expect  `json:"expect,omitempty"`  // fault-located expectation (C07c)
	Banned  []string `json:"banned,omitempty"`  // directive keywords passed to core.WithBannedDirectives for this build
	RootAs  int      `json:"root_as,omitempty"` // spelling of the root path: 0 a/p/root.jst, 1 ./a/p/.., 2 a/p/./.., 3 a//p/.., 4 a/q/../p/.., 5 absolute, 6 ../<cwd name>/a/p/..
	Prior   int      `json:"prior,omitempty"`   // sim-disk engines: this many damaged older versions of the same project are built first, at the same paths, in the same process and pool session

	History []Step    `json:"history,omitempty"` // C16: accessor calls with environment changes
	Reps    []Rep     `json:"reps,omitempty"`    // C06: repetitions of the same build under different environments
	Conc    *ConcCase `json:"conc,omitempty"`    // C18 (and the concurrent part of C06)
	Note    string    `json:"note,omitempty"`

	// PriorJobs are executed in the same process before the case itself: the history of a
	// long-lived process that a violation turned out to depend on (found when a violation seen
	// in a worker does not reproduce alone in a fresh process but does after the jobs that
	// worker had executed before).
	PriorJobs []Job `json:"prior_jobs,omitempty"`
}

// Env is the simulated environment of one call / one repetition.
type Env struct {
	MapMode  int      `json:"map_mode,omitempty"` // 0 canonical, 1 permuted by MapSeed, 2 reversed
	MapSeed  uint64   `json:"map_seed,omitempty"`
	MapSites []string `json:"map_sites,omitempty"` // nil: all sites
	Pool     int      `json:"pool,omitempty"`      // simrt.Pool*
	DropAll  bool     `json:"drop_all,omitempty"`  // empty the simulated pools before the call (GC cycle)
	Ambient  uint64   `json:"ambient,omitempty"`   // seed of clock / global rand / pid / env answers
	Prior    int      `json:"prior,omitempty"`     // build this many unrelated projects first (prior history)
	Fresh    bool     `json:"fresh,omitempty"`     // execute in a fresh process
	Sibling  bool     `json:"sibling,omitempty"`   // the first prior build is a near-variant of the observed project (same paths and names spelled differently)
	Conc     int      `json:"conc,omitempty"`      // build concurrently with this many other builds (seeded scheduler, isolating pool)
	ConcSeed uint64   `json:"conc_seed,omitempty"`
	Cwd      string   `json:"cwd,omitempty"`    // working directory of the process during the observed build, relative to the worker's own (the root is then named by its absolute path)
	Repeat   int      `json:"repeat,omitempty"` // soak: build and serialise this many times in a row in the same process, every result must equal the first
}

type Step struct {
	Op  string `json:"op"` // ToJson ToJsonIndent ToOpenAPIJson ToOpenAPIJsonIndent Title
	Env Env    `json:"env"`
}

type Rep struct {
	Env Env `json:"env"`
}

type Expect struct {
	File string `json:"file"`
	Off  int    `json:"off"`
	Line int    `json:"line"`
	Why  string `json:"why"`
	// Off < 0: any index on that line. MsgHas: the message must contain this (it is THIS defect).
	MsgHas string `json:"msg_has,omitempty"`
}

// Result of executing one Case.
type Result struct {
	ID         int             `json:"id"`
	Seed       uint64          `json:"seed"`
	Verdict    string          `json:"verdict"` // ok | violation | skip | harness-error
	Class      string          `json:"class,omitempty"`
	Msg        string          `json:"msg,omitempty"`
	Blob       []byte          `json:"blob,omitempty"` // raw bytes handed back by a child process (base64 in JSON)
	Sig        string          `json:"sig,omitempty"` // what a known-finding entry is matched against
	Key        string          `json:"key,omitempty"` // distinctness key of this run
	NonTrivial bool            `json:"nontrivial,omitempty"`
	Counters   map[string]int  `json:"counters,omitempty"`
	Steps      int             `json:"steps,omitempty"`
	Foreign    []string        `json:"foreign,omitempty"`
	Case       *Case           `json:"case,omitempty"`
	Detail     json.RawMessage `json:"detail,omitempty"`
	WallUS     int64           `json:"wall_us,omitempty"`
}

func (r *Result) count(k string, n int) {
	if r.Counters == nil {
		r.Counters = map[string]int{}
	}
	r.Counters[k] += n
}

func (r *Result) violate(class, sig, msg string) {
	if r.Verdict == "violation" {
		return // first violation wins
	}
	r.Verdict = "violation"
	r.Class, r.Sig, r.Msg = class, sig, msg
}

type Job struct {
	ID     int    `json:"id"`
	Prop   string `json:"prop"`
	Seed   uint64 `json:"seed"`
	Tier   string `json:"tier"`
	Mode   string `json:"mode,omitempty"` // engine-specific sub-mode (e.g. "sweep")
	Index  int    `json:"index,omitempty"`
	Case   *Case  `json:"case,omitempty"` // replay / minimisation: execute this instead of generating
	Sample bool   `json:"sample,omitempty"`
	Rep    int    `json:"rep,omitempty"` // oneshot: execute only repetition Rep of the case (fresh-process repetitions)
}

// Engine: one per claimed property.
type Engine interface {
	Gen(job *Job) *Case
	Exec(c *Case, job *Job) *Result
}

var engines = map[string]Engine{}

func sortedKeys(m map[string]int) []string {
	ks := make([]string, 0, len(m))
	for k := range m {
		ks = append(ks, k)
	}
	sort.Strings(ks)
	return ks
}

func must(err error) {
	if err != nil {
		panic(fmt.Sprintf("harness: %v", err))
	}
}

// ConcCase: a concurrent run (C18, and the concurrent share of C06).
type ConcCase struct {
	Projects []*Project `json:"projects"`
	Shared   []int      `json:"shared,omitempty"` // projects built before the tasks start; tasks serialise these shared catalogs
	Tasks    []TaskProg `json:"tasks"`
	Sched    SchedCfg   `json:"sched"`
	Pool     int        `json:"pool"`
	Cold     bool       `json:"cold,omitempty"` // execute in a fresh process: package-level lazy initialisation happens under contention
}

type TaskProg struct {
	Ops []TaskOp `json:"ops"`
}

type TaskOp struct {
	Kind   string   `json:"kind"`             // "build" (own instance of project Proj) | "call" (accessor Op)
	Proj   int      `json:"proj"`             // index into Projects
	Shared bool     `json:"shared,omitempty"` // call goes to the shared catalog of project Proj
	Banned []string `json:"banned,omitempty"` // build: directive keywords passed to core.WithBannedDirectives
	Op     string   `json:"op,omitempty"`
}

type SchedCfg struct {
	Seed         uint64  `json:"seed"`
	Strategy     int     `json:"strategy"`
	SwitchDen    int     `json:"switch_den,omitempty"`
	ChangePoints int     `json:"change_points,omitempty"`
	Horizon      int     `json:"horizon,omitempty"`
	Replay       []uint8 `json:"replay,omitempty"`
	PoolReplay   []uint8 `json:"pool_replay,omitempty"`
	UseReplay    bool    `json:"use_replay,omitempty"`
}
