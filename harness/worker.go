package main

import (
	"bufio"
	"encoding/json"
	"flag"
	"fmt"
	"os"
	"os/exec"
	"runtime/debug"
	"strings"
	"time"

	"simrt"
)

// Worker process: executes jobs read from stdin (one JSON object per line), writes for each
// job a {"begin":id} line before it starts and the Result line when it is done. A job that
// kills the process is thereby attributable by the driver.

type workerEnv struct {
	dir      string
	sites    []string
	mapSites []string
	corpus   string
	raceLog  string // GORACE log_path prefix; the file is <prefix>.<pid>
	raceOff  int64
	timeout  time.Duration
	selfPath string
	args     []string
}

var wenv workerEnv

func workerFlags(fl *flag.FlagSet) {
	fl.StringVar(&wenv.dir, "dir", "", "private working directory (becomes cwd)")
	fl.StringVar(&wenv.corpus, "corpus", "", "directory with the repository's .jst corpus")
	fl.StringVar(&wenv.raceLog, "racelog", "", "GORACE log_path prefix")
	fl.DurationVar(&wenv.timeout, "timeout", 30*time.Second, "per-job watchdog")
	sitesFile := fl.String("sites", "", "site table written by the instrumenter")
	knownFile := fl.String("known", "", "known findings (read-only)")
	prop := fl.String("prop", "", "property served")
	fl.Parse(os.Args[2:])
	if *knownFile != "" && *prop != "" {
		workerKnown = loadKnown(*knownFile, *prop)
	}
	if *sitesFile != "" {
		b, err := os.ReadFile(*sitesFile)
		must(err)
		var st struct {
			Sites    []string `json:"sites"`
			MapSites []string `json:"map_sites"`
		}
		must(json.Unmarshal(b, &st))
		wenv.sites = st.Sites
		wenv.mapSites = st.MapSites
		simrt.SetSiteNames(st.Sites)
	}
	wenv.selfPath, _ = os.Executable()
	wenv.args = os.Args[2:]
	if wenv.dir != "" {
		must(os.MkdirAll(wenv.dir, 0o755))
		must(os.Chdir(wenv.dir))
	}
	initCwd()
	debug.SetMaxStack(64 << 20) // a runaway recursion dies quickly instead of eating 1 GB first
}

type wireMsg struct {
	Begin  *int    `json:"begin,omitempty"`
	Result *Result `json:"result,omitempty"`
}

func workerMain() {
	fl := flag.NewFlagSet("worker", flag.ExitOnError)
	workerFlags(fl)
	in := bufio.NewReaderSize(os.Stdin, 1<<20)
	out := bufio.NewWriter(os.Stdout)
	enc := json.NewEncoder(out)
	for {
		line, err := in.ReadBytes('\n')
		if len(line) > 0 {
			var job Job
			if e := json.Unmarshal(line, &job); e != nil {
				fmt.Fprintln(os.Stderr, "worker: bad job:", e)
				os.Exit(2)
			}
			id := job.ID
			enc.Encode(wireMsg{Begin: &id})
			out.Flush()
			res := runJob(&job)
			enc.Encode(wireMsg{Result: res})
			out.Flush()
			if res.Verdict == "violation" && (res.Class == "hang" || res.Class == "deadlock") {
				os.Exit(3) // leaked goroutines: this process is not reusable
			}
		}
		if err != nil {
			return
		}
	}
}

func oneshotMain() {
	fl := flag.NewFlagSet("oneshot", flag.ExitOnError)
	workerFlags(fl)
	var job Job
	must(json.NewDecoder(bufio.NewReaderSize(os.Stdin, 1<<20)).Decode(&job))
	res := runJob(&job)
	must(json.NewEncoder(os.Stdout).Encode(res))
}

var warmed bool

// warmDoc touches every notation and rule kind once: any (as a body, as a type, as a rule),
// regex, enum, or, allOf, JSON-RPC, macros, path / query / headers.
const warmDoc = `JSIGHT 0.3
INFO
  Title "warm"
  Version 1.0
SERVER @s
  BaseUrl "https://example.com"
TAG @t
ENUM @e
  ["a", "b"]
TYPE @anyT
  {} // {type: "any"}
TYPE @rx regex
  /[a-z]{2}/
TYPE @base
  {"id": 1}
TYPE @obj
  { // {allOf: "@base"}
    "a": "a", // {enum: @e}
    "b": @anyT,
    "c": @rx | @base,
    "d": 1, // {or: ["integer", "string"]}
    "e": [1, 2],
    "f": null, // {type: "any"}
    "g": "x" // {optional: true, nullable: true}
  }
MACRO @m
(
  404 any
  500 empty
)
URL /w/{id}
  Path
    {"id": 1}
  GET
    Tags @t
    Query "a=1"
      {"a": 1}
    200 @obj
    201 any
    202 regex
      /ab+/
    PASTE @m
  POST
    Request
      Headers
        {"X-A": "a"}
      Body @obj
    200
      Headers
        {"X-B": 1}
      Body [@base]
URL /rpc
  Protocol json-rpc-2.0
  Method m1
    Params
      {"p": @anyT}
    Result
      @obj
`

// warmUp brings the package-level lazily initialised state of the code under test (sync.Once
// guarded tables) into its steady state, single-task, so that the sequence of scheduling
// points of a run depends on the case only and not on what the process executed before: a
// decision log recorded in a long-lived worker replays in a fresh process. Cold-start runs
// (C18, job.Rep == 1) skip it on purpose.
func warmUp() {
	warmed = true
	canonicalEnv()
	r := NewRand(0x77a3)
	for i := 0; i < 6; i++ {
		p := genValid(r.Fork())
		must(MaterialiseAt("warm", p.Files))
		if o := BuildPath("warm/" + p.Root); o.OK {
			for _, op := range accessors {
				call(o.japi, op)
			}
		}
	}
	// A fixed document on top of the generated ones: what the six random projects cover changes
	// whenever the generator changes, and a package-level sync.Once that they happen to miss (the
	// dependency's virtual node for "any") makes the first run that meets it two operations longer
	// than the same run in another process - found by the determinism self-test.
	for _, doc := range []string{warmDoc, richDoc} {
		must(MaterialiseAt("warm", []GenFile{{Path: "root.jst", Data: []byte(doc)}, {Path: "inc.jst", Data: []byte("502 any\n")}, {Path: "inc2.jst", Data: []byte("TAG @t3\n")}}))
		o := BuildPath("warm/root.jst")
		if doc == warmDoc && !o.OK {
			panic("the warm-up document is rejected: " + o.Text())
		}
		if o.OK {
			for _, op := range accessors {
				call(o.japi, op)
			}
		}
	}
	raceDelta()
}

func runJob(job *Job) *Result {
	// No warm-up for a cold-start run of C18 and for the fresh-process repetition of C06: that
	// repetition is about what the very first build of a process observes (and the warm-up - eight
	// builds under the race detector - is most of what such a short-lived process would do).
	if !warmed && !(job.Prop == "C18" && job.Rep >= 1 && job.Case != nil && job.Case.Conc != nil && job.Case.Conc.Cold) && !(job.Prop == "C06" && job.Rep >= 1) {
		warmUp()
	}
	eng := engines[job.Prop]
	if eng == nil {
		return &Result{ID: job.ID, Seed: job.Seed, Verdict: "harness-error", Msg: "no engine for " + job.Prop}
	}
	done := make(chan *Result, 1)
	t0 := time.Now()
	go func() {
		defer func() {
			if r := recover(); r != nil {
				done <- &Result{ID: job.ID, Seed: job.Seed, Verdict: "harness-error", Msg: fmt.Sprintf("harness panic: %v\n%s", r, debug.Stack())}
			}
		}()
		c := job.Case
		if c == nil {
			c = eng.Gen(job)
		}
		for i := range c.PriorJobs {
			pj := c.PriorJobs[i]
			if pe := engines[pj.Prop]; pe != nil {
				pj.Case, pj.Sample = nil, false
				pe.Exec(pe.Gen(&pj), &pj)
				raceDelta()
			}
		}
		// The engine works on a copy: code under test that writes into the bytes it was handed (a
		// root given in memory) must not alter the case that is recorded, replayed and minimised.
		// Within the run the copy is shared by all builds, like one *fs.File built several times.
		res := eng.Exec(cloneCase(c), job)
		res.ID, res.Seed = job.ID, c.Seed
		if res.Verdict == "" {
			res.Verdict = "ok"
		}
		if res.Verdict == "violation" || job.Sample {
			res.Case = c
		}
		done <- res
	}()
	select {
	case res := <-done:
		res.WallUS = time.Since(t0).Microseconds()
		return res
	case <-time.After(wenv.timeout):
		c := job.Case
		if c == nil {
			c = eng.Gen(job) // deterministic: the same case the stuck goroutine is executing
		}
		return &Result{ID: job.ID, Seed: job.Seed, Verdict: "violation", Class: "hang", Sig: "hang",
			Msg: fmt.Sprintf("run did not finish within %v of wall time", wenv.timeout), Case: c, WallUS: time.Since(t0).Microseconds()}
	}
}

// raceDelta returns what the race detector wrote since the last call (empty without -race).
func raceDelta() string {
	if wenv.raceLog == "" {
		return ""
	}
	fn := fmt.Sprintf("%s.%d", wenv.raceLog, os.Getpid())
	b, err := os.ReadFile(fn)
	if err != nil || int64(len(b)) <= wenv.raceOff {
		return ""
	}
	s := string(b[wenv.raceOff:])
	wenv.raceOff = int64(len(b))
	return s
}

// childDeath: a fresh process that executed a job died with a Go fatal error or panic.
type childDeath struct{ stderr string }

func (d *childDeath) Error() string { return "fresh process died:\n" + lastLines(d.stderr, 30) }

// runFresh executes a job in a fresh process of this same binary and returns its result.
func runFresh(job *Job) (*Result, error) {
	var args []string
	for i := 0; i < len(wenv.args); i++ {
		if wenv.args[i] == "-dir" || wenv.args[i] == "--dir" {
			i++
			continue
		}
		if strings.HasPrefix(wenv.args[i], "-dir=") {
			continue
		}
		args = append(args, wenv.args[i])
	}
	wd, _ := os.Getwd()
	args = append([]string{"oneshot", "-dir", wd + "/fresh"}, args...)
	cmd := exec.Command(wenv.selfPath, args...)
	b, _ := json.Marshal(job)
	cmd.Stdin = strings.NewReader(string(b))
	var errOut strings.Builder
	cmd.Stderr = &errOut
	out, err := cmd.Output()
	if err != nil {
		if strings.Contains(errOut.String(), "fatal error:") || strings.Contains(errOut.String(), "\npanic:") {
			// the child died the way a process dies when the code under test kills it (a Go fatal
			// error exits with status 2): that is an observation, not harness trouble
			return nil, &childDeath{stderr: errOut.String()}
		}
		os.Stderr.WriteString(errOut.String())
		return nil, fmt.Errorf("fresh process: %v", err)
	}
	var res Result
	if err := json.Unmarshal(out, &res); err != nil {
		return nil, fmt.Errorf("fresh process output: %v", err)
	}
	return &res, nil
}
