package main

import (
	"fmt"
	"path"
	"strings"
)

// Workload generator: a seeded abstract API model rendered to a small JSight project
// (1-6 files). The renderer records where every directive keyword and every INCLUDE line
// ended up (file, byte offset, line) - the oracles need that ground truth.

type GenFile struct {
	Path string `json:"path"` // relative to the project directory
	Data []byte `json:"data"`
	CRLF bool   `json:"crlf,omitempty"`
	// Special: "fifo" - not a regular file but a named pipe nobody writes into (reading it blocks).
	Special string `json:"special,omitempty"`
}

type KW struct {
	File string `json:"file"`
	Off  int    `json:"off"`
	Line int    `json:"line"`
	Word string `json:"word"`
}

type Project struct {
	Name     string    `json:"name"`
	Kind     string    `json:"kind"` // configuration kind: generated-valid, include-hostile, macro-cycle, multi-defect, corpus ...
	Files    []GenFile `json:"files"`
	Root     string    `json:"root"`
	Keywords []KW      `json:"keywords,omitempty"`
	Valid    bool      `json:"valid"` // the generator believes the project is accepted
	Features []string  `json:"features,omitempty"`
}

func (p *Project) File(name string) *GenFile {
	for i := range p.Files {
		if p.Files[i].Path == name {
			return &p.Files[i]
		}
	}
	return nil
}

func (p *Project) Clone() *Project {
	q := *p
	q.Files = make([]GenFile, len(p.Files))
	for i, f := range p.Files {
		q.Files[i] = GenFile{Path: f.Path, Data: append([]byte(nil), f.Data...), CRLF: f.CRLF, Special: f.Special}
	}
	q.Keywords = append([]KW(nil), p.Keywords...)
	q.Features = append([]string(nil), p.Features...)
	return &q
}

// ---------- directive tree ----------

type node struct {
	head     string   // directive line without indentation ("GET /cats // note")
	body     []string // body lines (schema / text), relative indentation kept
	kids     []*node
	explicit bool // render children inside ( )
	include  *genInc
}

type genInc struct {
	param  string // parameter as written
	target string // path relative to project dir
	quoted bool
}

type gen struct {
	r          *Rand
	types      []string // declared user types (object types)
	scalars    []string // declared scalar user types
	anys       []string // declared free-form ({type: "any"}) user types
	lateDefect bool
	enums      []string
	tags       []string
	macros     []*node
	nType      int
	features   map[string]bool
	opid       int
	opFamily   int // 0 undecided, 1 operation ids that are equal up to letter case and numeric suffixes, 2 plain
	paths      map[string]bool
	files      map[string][]*node // path -> nodes
	order      []string
	nfile      int
	flat       map[string]*node // flat object types for bare references in Headers / Query (declared at the end)
}

// flatType: a user type that is a flat object of scalars, named from a small pool - different
// projects declare the same name with different properties. Referred to without braces
// ("Headers @hdrcat") from Headers and Query.
func (g *gen) flatType() string {
	name := "@hdr" + g.r.Pick(words[:4])
	if _, ok := g.flat[name]; !ok {
		var ll []string
		n := g.r.Range(1, 3)
		used := map[string]bool{}
		for i := 0; i < n; i++ {
			f := "X-" + g.r.Pick(fields) + "-" + g.r.Pick(words)
			if used[f] {
				continue
			}
			used[f] = true
			ll = append(ll, fmt.Sprintf("  %q: %d,", f, g.r.Intn(100)))
		}
		ll[len(ll)-1] = strings.TrimSuffix(ll[len(ll)-1], ",")
		if g.flat == nil {
			g.flat = map[string]*node{}
		}
		g.flat[name] = &node{head: "TYPE " + name, body: append(append([]string{"{"}, ll...), "}")}
		g.feat("flat-type-bare-reference")
	}
	return name
}

func (g *gen) feat(s string) { g.features[s] = true }

var words = []string{"cat", "dog", "user", "task", "item", "order", "file", "note", "tag", "page", "pet", "book"}
var fields = []string{"id", "name", "age", "size", "kind", "email", "count", "title", "flag", "price", "code", "text"}

func (g *gen) scalar() (string, string) {
	switch g.r.Intn(8) {
	case 6:
		// an `or` rule over scalar type names, items possibly repeated (accepted by the builder)
		g.feat("or-rule-list")
		names := []string{"integer", "string", "boolean", "float"}
		items := []string{`"integer"`}
		for i := 0; i < g.r.Range(1, 3); i++ {
			items = append(items, fmt.Sprintf("%q", names[g.r.Intn(len(names))]))
		}
		if g.r.Chance(1, 2) {
			items[0], items[len(items)-1] = items[len(items)-1], items[0]
		}
		return fmt.Sprint(g.r.Intn(100)), "{or: [" + strings.Join(items, ", ") + "]}"
	case 0:
		return fmt.Sprint(g.r.Intn(1000)), ""
	case 1:
		return fmt.Sprintf("%q", g.r.Pick(words)), ""
	case 2:
		return "true", ""
	case 3:
		return fmt.Sprintf("%d.%d", g.r.Intn(100), 1+g.r.Intn(9)), ""
	case 4:
		n := g.r.Intn(50)
		return fmt.Sprint(n + 1), fmt.Sprintf("{min: %d}", g.r.Intn(n+1))
	case 5:
		w := g.r.Pick(words)
		return fmt.Sprintf("%q", w), fmt.Sprintf("{minLength: %d}", g.r.Intn(len(w)+1))
	default:
		a, b := g.r.Pick(words), g.r.Pick(words)
		if a == b {
			b = a + "2"
		}
		g.feat("enum-rule")
		return fmt.Sprintf("%q", a), fmt.Sprintf("{enum: [%q, %q]}", a, b)
	}
}

// schema renders a jsight schema value as lines. depth limits nesting.
func (g *gen) schemaLines(depth int, allowRefs bool) []string {
	switch k := g.r.Intn(10); {
	case k < 5 || depth >= 2:
		return g.objectLines(depth, allowRefs)
	case k < 6 && allowRefs && len(g.types) > 0:
		g.feat("ref")
		return []string{g.r.Pick(g.types)}
	case k < 7 && allowRefs && len(g.types) > 0:
		g.feat("array-ref")
		return []string{"[" + g.r.Pick(g.types) + "]"}
	case k < 8:
		v, rule := g.scalar()
		if rule != "" {
			return []string{v + " // " + rule}
		}
		return []string{v}
	case k < 9:
		return []string{"[1, 2, 3]"}
	default:
		return g.objectLines(depth, allowRefs)
	}
}

func (g *gen) objectLines(depth int, allowRefs bool) []string {
	n := g.r.Range(1, 4)
	perm := g.r.Perm(len(fields))
	var out []string
	open := "{"
	if allowRefs && len(g.types) > 0 && g.r.Chance(1, 6) {
		g.feat("allOf")
		open = fmt.Sprintf("{ // {allOf: %q}", g.r.Pick(g.types))
		// avoid overriding inherited properties: use a disjoint field alphabet
		for i := 0; i < n; i++ {
			g.nType++
			name := fmt.Sprintf("x%s%d", fields[perm[i]], g.nType)
			v, rule := g.scalar()
			out = append(out, g.prop(name, v, rule, i == n-1))
		}
		return append(append([]string{open}, indentLines(out, "  ")...), "}")
	}
	for i := 0; i < n; i++ {
		name := fields[perm[i]]
		last := i == n-1
		switch k := g.r.Intn(12); {
		case k == 0 && depth < 2:
			sub := g.objectLines(depth+1, allowRefs)
			sub[0] = fmt.Sprintf("%q: %s", name, sub[0])
			if !last {
				sub[len(sub)-1] += ","
			}
			out = append(out, sub...)
		case k == 1 && allowRefs && len(g.types) > 0:
			g.feat("ref")
			out = append(out, g.prop(name, g.r.Pick(g.types), "", last))
		case k == 2 && allowRefs && len(g.types) > 1:
			g.feat("or")
			a, b := g.types[g.r.Intn(len(g.types))], g.types[g.r.Intn(len(g.types))]
			if a == b {
				out = append(out, g.prop(name, a, "", last))
			} else {
				out = append(out, g.prop(name, a+" | "+b, "", last))
			}
		case k == 3 && allowRefs && len(g.enums) > 0:
			g.feat("enum-ref")
			out = append(out, g.prop(name, `"a"`, fmt.Sprintf("{enum: %s}", g.r.Pick(g.enums)), last))
		case k == 4:
			out = append(out, g.prop(name, `["x", "y"]`, "", last))
		case k == 5 && allowRefs && len(g.scalars) > 0:
			g.feat("regex-ref")
			out = append(out, g.prop(name, g.r.Pick(g.scalars), "", last))
		case k == 6:
			v, _ := g.scalar()
			out = append(out, g.prop(name, v, "{optional: true}", last))
		default:
			v, rule := g.scalar()
			out = append(out, g.prop(name, v, rule, last))
		}
	}
	return append(append([]string{open}, indentLines(out, "  ")...), "}")
}

func (g *gen) prop(name, val, rule string, last bool) string {
	s := fmt.Sprintf("%q: %s", name, val)
	if !last {
		s += ","
	}
	if rule != "" {
		s += " // " + rule
	} else if g.r.Chance(1, 8) && !strings.ContainsAny(val, "[|") {
		s += " // a note"
	}
	return s
}

func indentLines(ll []string, pre string) []string {
	out := make([]string, len(ll))
	for i, l := range ll {
		out[i] = pre + l
	}
	return out
}

func (g *gen) newType() *node {
	g.nType++
	name := fmt.Sprintf("@%s%d", g.r.Pick(words), g.nType)
	n := &node{head: "TYPE " + name}
	if g.r.Chance(1, 6) {
		g.feat("regex-type")
		n.head += " regex"
		n.body = []string{g.r.Pick([]string{"/[a-z]{2,5}/", "/A[0-9]+B/", "/(x|y|z){3}/", "/[A-F0-9]{4}-[a-z]+/"})}
		g.scalars = append(g.scalars, name)
		return n
	}
	if g.r.Chance(1, 8) {
		// a free-form type: the root carries {type: "any"}; usable wherever a reference is
		g.feat("any-type")
		n.body = []string{g.r.Pick([]string{`{} // {type: "any"}`, `"x" // {type: "any"}`, `1 // {type: "any"}`})}
		g.anys = append(g.anys, name)
		return n
	}
	if g.r.Chance(1, 5) {
		n.head += " // " + g.r.Pick(words) + " type"
	}
	n.body = g.objectLines(0, true)
	g.types = append(g.types, name)
	return n
}

// refName: a user type to refer to from a request / response head or body: object types and free-form types.
func (g *gen) refName() string {
	if len(g.anys) > 0 && (len(g.types) == 0 || g.r.Chance(1, 3)) {
		return g.r.Pick(g.anys)
	}
	return g.r.Pick(g.types)
}

func (g *gen) newEnum() *node {
	name := fmt.Sprintf("@e%s%d", g.r.Pick(words), len(g.enums)+1)
	g.enums = append(g.enums, name)
	g.feat("enum")
	return &node{head: "ENUM " + name, body: []string{`["a", "b", "c"]`}}
}

func (g *gen) responses() []*node {
	n := g.r.Range(1, 3)
	codes := []int{200, 201, 204, 301, 400, 401, 404, 409, 422, 500}
	perm := g.r.Perm(len(codes))
	var out []*node
	for i := 0; i < n; i++ {
		code := codes[perm[i]]
		if g.r.Chance(1, 4) {
			// any code of the 100-599 range (not only the usual ones): keeps exercising whatever is
			// memoised per keyword; avoid the codes the macros and shared include files use
			code = 100 + g.r.Intn(500)
			for code == 418 || code == 503 || code == 429 || code == 402 || code == 451 {
				code = 100 + g.r.Intn(500)
			}
		}
		out = append(out, g.response(code))
	}
	if g.r.Chance(1, 6) {
		// the same code declared again (allowed by the language): repeated codes are grouped by the
		// serialisers, and some combinations (e.g. two `empty` bodies) cannot be exported to OpenAPI
		g.feat("repeated-response-codes")
		for _, nd := range append([]*node(nil), out...) {
			code := 0
			fmt.Sscanf(nd.head, "%d", &code)
			if code == 0 || !g.r.Chance(2, 3) {
				continue
			}
			switch g.r.Intn(3) {
			case 0:
				out = append(out, &node{head: fmt.Sprintf("%d empty", code)}, &node{head: fmt.Sprintf("%d empty", code)})
			case 1:
				out = append(out, g.response(code))
			default:
				// the same response once more, VERBATIM, and a different one: three of one code, two
				// of them identical (what a de-duplicating serialiser has to keep in order)
				g.feat("identical-repeated-responses")
				out = append(out, nd, g.response(code))
				if g.r.Chance(1, 2) {
					out = append(out, g.response(code))
				}
			}
		}
	}
	return out
}

func (g *gen) response(code int) *node {
	nd := &node{}
	switch k := g.r.Intn(10); {
	case k < 2:
		nd.head = fmt.Sprintf("%d any", code)
	case k < 3:
		nd.head = fmt.Sprintf("%d empty", code)
	case k < 5 && len(g.types)+len(g.anys) > 0:
		nd.head = fmt.Sprintf("%d %s", code, g.refName())
		if g.r.Chance(1, 3) {
			nd.head += " // " + g.r.Pick(words)
		}
	case k < 6:
		g.feat("regex-body")
		nd.head = fmt.Sprintf("%d regex", code)
		nd.body = []string{"/[a-z]{3}[0-9]{2}/"}
		if g.r.Chance(1, 6) {
			// accepted by the builder; the example generator of the serialisers cannot handle it
			g.feat("regex-without-example")
			// (the last three fail or succeed depending on the draws of the example generator, which is
			// kept per schema and advanced by every call: seeded change C06-s)
			nd.body = []string{g.r.Pick([]string{`/[^\x00-\x7F]/`, `/[\x{10000}-\x{10FFFF}]/`, `/([^\x00-\x7F]+|abc)/`, `/x[^\x00-\x7F]?/`, `/(a|[^\x00-\x7F])(b|[^\x00-\x7F])?c/`})}
		}
	case k < 7:
		g.feat("resp-headers")
		nd.head = fmt.Sprint(code)
		nd.kids = []*node{
			{head: "Headers", body: []string{"{", `  "X-Rate": 1`, "}"}},
			{head: "Body", body: g.schemaLines(0, true)},
		}
		if g.r.Chance(1, 3) {
			nd.kids[0] = &node{head: "Headers", body: []string{g.flatType()}}
		}
	default:
		nd.head = fmt.Sprint(code)
		nd.body = g.schemaLines(0, true)
	}
	return nd
}

func (g *gen) method(verb, p string, grouped bool) *node {
	nd := &node{head: verb}
	if !grouped {
		nd.head += " " + p
	}
	if g.r.Chance(1, 3) {
		nd.head += " // " + verb + " " + g.r.Pick(words)
	}
	if len(g.tags) > 0 && g.r.Chance(1, 3) {
		g.feat("tags")
		t := "Tags " + g.r.Pick(g.tags)
		if len(g.tags) > 1 && g.r.Chance(1, 2) {
			t2 := g.r.Pick(g.tags)
			if !strings.Contains(t, t2) {
				t += " " + t2
			} else if g.r.Chance(1, 2) {
				// the same tag twice, then another one: accepted by the builder
				g.feat("repeated-tag")
				t += " " + t2
				if t3 := g.r.Pick(g.tags); t3 != t2 {
					t += " " + t3
				}
			}
		}
		nd.kids = append(nd.kids, &node{head: t})
	}
	if g.r.Chance(1, 4) || g.opFamily == 1 {
		g.opid++
		g.feat("operationId")
		if g.opFamily == 0 {
			g.opFamily = 2
			if g.r.Chance(1, 3) {
				g.opFamily = 1
			}
		}
		id := fmt.Sprintf("op%d", g.opid)
		// distinct ids which an exporter that compares case-insensitively, or that makes ids unique
		// with a numeric suffix, would confuse (seeded change C16-t), in this document order
		if fam := []string{"getUsers", "GetUsers", "getUsers_2", "GETUSERS", "getUsers_2_2", "getusers_3", "GetUsers_1"}; g.opFamily == 1 && g.opid <= len(fam) {
			id = fam[g.opid-1]
			g.feat("operationId-near-collisions")
		}
		nd.kids = append(nd.kids, &node{head: "OperationId " + id})
	}
	if g.r.Chance(1, 4) {
		g.feat("description")
		body := []string{"Some *text* about " + g.r.Pick(words)}
		for i := 0; i < g.r.Intn(3); i++ {
			body = append(body, "")
		}
		nd.kids = append(nd.kids, &node{head: "Description", body: append(body, "second line")})
	}
	if !grouped && strings.Contains(p, "{") && g.r.Chance(1, 2) && g.claimPathParams(p) {
		g.feat("path")
		nd.kids = append(nd.kids, g.pathNode(p))
	}
	if g.r.Chance(1, 4) {
		g.feat("query")
		q := &node{head: "Query", body: g.objectLines(1, false)}
		if g.r.Chance(1, 2) {
			q.head = `Query "a=1&b=2" htmlFormEncoded`
		}
		if g.r.Chance(1, 5) {
			q.body = []string{g.flatType()}
		}
		nd.kids = append(nd.kids, q)
	}
	if verb != "GET" && verb != "DELETE" && g.r.Chance(2, 3) {
		g.feat("request")
		rq := &node{head: "Request"}
		switch k := g.r.Intn(4); {
		case k == 0 && len(g.types)+len(g.anys) > 0:
			if g.r.Chance(1, 2) {
				rq.head += " " + g.refName()
			} else {
				rq.body = []string{g.refName()}
			}
		case k == 1:
			g.feat("req-headers")
			rq.kids = []*node{
				{head: "Headers", body: []string{"{", `  "Content-Type": "application/json"`, "}"}},
				{head: "Body", body: g.schemaLines(0, true)},
			}
			if g.r.Chance(1, 3) {
				rq.kids[0] = &node{head: "Headers", body: []string{g.flatType()}}
			}
		default:
			rq.body = g.schemaLines(0, true)
		}
		nd.kids = append(nd.kids, rq)
	}
	nd.kids = append(nd.kids, g.responses()...)
	return nd
}

func (g *gen) pathNode(p string) *node {
	var props []string
	for _, seg := range strings.Split(p, "/") {
		if strings.HasPrefix(seg, "{") {
			props = append(props, strings.Trim(seg, "{}"))
		}
	}
	var ll []string
	for i, pr := range props {
		s := fmt.Sprintf("  %q: %d", pr, 1+g.r.Intn(99))
		if i < len(props)-1 {
			s += ","
		}
		if g.r.Chance(1, 12) {
			// an example that violates its own rule: the builder accepts the document, the
			// schema is compiled lazily by the serialisers
			g.feat("path-example-violates-rule")
			s = fmt.Sprintf("  %q: 1", pr)
			if i < len(props)-1 {
				s += ","
			}
			s += " // {min: 5}"
		} else if g.r.Chance(1, 3) {
			s += " // {min: 0}"
		}
		ll = append(ll, s)
	}
	return &node{head: "Path", body: append(append([]string{"{"}, ll...), "}")}
}

func (g *gen) newPath() string {
	for tries := 0; ; tries++ {
		w := g.r.Pick(words)
		p := "/" + w + "s"
		if g.r.Chance(1, 2) {
			p += "/{" + w + "Id}"
			if g.r.Chance(1, 3) {
				w2 := g.r.Pick(words)
				p += "/" + w2
				if g.r.Chance(1, 3) {
					p += "/{" + w2 + "Sub}"
				}
			}
		}
		if tries > 20 {
			p = fmt.Sprintf("/u%d", len(g.paths))
		}
		if !g.paths[p] {
			g.paths[p] = true
			return p
		}
	}
}

// claimPathParams: every path parameter may be described by one Path directive only.
func (g *gen) claimPathParams(p string) bool {
	segs := strings.Split(p, "/")
	var keys []string
	for i, s := range segs {
		if strings.HasPrefix(s, "{") {
			keys = append(keys, "param:"+strings.Join(segs[:i+1], "/"))
		}
	}
	for _, k := range keys {
		if g.paths[k] {
			return false
		}
	}
	for _, k := range keys {
		g.paths[k] = true
	}
	return true
}

func similarShape(p string) string {
	segs := strings.Split(p, "/")
	for i, s := range segs {
		if strings.HasPrefix(s, "{") {
			segs[i] = "{}"
		}
	}
	return strings.Join(segs, "/")
}

var verbs = []string{"GET", "POST", "PUT", "PATCH", "DELETE"}

func (g *gen) resource() *node {
	p := g.newPath()
	if g.r.Chance(1, 2) {
		// stand-alone method
		return g.method(g.r.Pick(verbs), p, false)
	}
	g.feat("url-group")
	u := &node{head: "URL " + p}
	if strings.Contains(p, "{") && g.r.Chance(1, 2) && g.claimPathParams(p) {
		g.feat("path")
		u.kids = append(u.kids, g.pathNode(p))
	}
	perm := g.r.Perm(len(verbs))
	for i := 0; i < g.r.Range(1, 3); i++ {
		u.kids = append(u.kids, g.method(verbs[perm[i]], p, true))
	}
	u.explicit = g.r.Chance(1, 3)
	return u
}

func (g *gen) rpc() *node {
	g.feat("json-rpc")
	p := g.newPath()
	for strings.Contains(p, "{") {
		p = g.newPath()
	}
	u := &node{head: "URL " + p}
	u.kids = append(u.kids, &node{head: "Protocol json-rpc-2.0"})
	for i := 0; i < g.r.Range(1, 3); i++ {
		m := &node{head: fmt.Sprintf("Method %s%d", g.r.Pick(words), i)}
		if g.r.Chance(1, 2) {
			m.head += " // does " + g.r.Pick(words)
		}
		if g.r.Chance(2, 3) {
			m.kids = append(m.kids, &node{head: "Params", body: g.schemaLines(0, true)})
		}
		if g.r.Chance(2, 3) {
			m.kids = append(m.kids, &node{head: "Result", body: g.schemaLines(0, true)})
		}
		u.kids = append(u.kids, m)
	}
	return u
}

// genValid builds a project the generator believes to be accepted.
func genValid(r *Rand) *Project {
	g := &gen{r: r, features: map[string]bool{}, paths: map[string]bool{}, files: map[string][]*node{}}
	var top []*node
	top = append(top, &node{head: "JSIGHT 0.3"})
	if r.Chance(1, 2) {
		g.feat("info")
		info := &node{head: "INFO"}
		info.kids = append(info.kids, &node{head: fmt.Sprintf("Title %q", "API of "+r.Pick(words))})
		if r.Chance(1, 2) {
			info.kids = append(info.kids, &node{head: "Version 1." + fmt.Sprint(r.Intn(9))})
		}
		if r.Chance(1, 2) {
			body := []string{"About this API."}
			for i := 0; i < r.Range(0, 3); i++ { // runs of empty lines inside the text
				body = append(body, "")
			}
			body = append(body, "More.")
			if r.Chance(1, 3) {
				body = append(body, "", "", "", "End.")
			}
			info.kids = append(info.kids, &node{head: "Description", body: body})
		}
		info.explicit = r.Chance(1, 3)
		top = append(top, info)
	}
	if r.Chance(1, 3) {
		g.feat("server")
		s := &node{head: fmt.Sprintf("SERVER @srv%d // main", r.Intn(9))}
		s.kids = []*node{{head: `BaseUrl "https://example.com/api/"`}}
		top = append(top, s)
	}
	for i := 0; i < r.Intn(3); i++ {
		name := fmt.Sprintf("@t%s%d", r.Pick(words), i)
		g.tags = append(g.tags, name)
		t := &node{head: "TAG " + name}
		if r.Chance(1, 2) {
			t.head += " // " + r.Pick(words) + " things"
		}
		if r.Chance(1, 3) {
			t.kids = append(t.kids, &node{head: "Description", body: []string{"Tag description"}})
		}
		if r.Chance(1, 4) {
			sub := fmt.Sprintf("@t%ssub%d", r.Pick(words), i)
			g.tags = append(g.tags, sub)
			t.kids = append(t.kids, &node{head: "TAG " + sub})
			g.feat("nested-tag")
		}
		top = append(top, t)
	}
	var blocks []*node
	for i := 0; i < r.Intn(3); i++ {
		blocks = append(blocks, g.newEnum())
	}
	nt := r.Range(0, 5)
	if r.Chance(1, 2) && nt > 1 {
		// forward references: a type refers to types declared LATER in the document. The types are
		// generated last to first, each seeing only the ones generated so far (no reference cycles),
		// and put into the document in the opposite order.
		g.feat("forward-type-refs")
		var tb []*node
		for i := 0; i < nt; i++ {
			tb = append([]*node{g.newType()}, tb...)
		}
		blocks = append(blocks, tb...)
	} else {
		for i := 0; i < nt; i++ {
			blocks = append(blocks, g.newType())
		}
	}
	nres := r.Range(1, 5)
	for i := 0; i < nres; i++ {
		if r.Chance(1, 8) {
			blocks = append(blocks, g.rpc())
		} else {
			blocks = append(blocks, g.resource())
		}
	}
	for _, n := range sortedFlat(g.flat) {
		blocks = append(blocks, n)
	}
	// types may be used before they are declared: shuffle the blocks
	if r.Chance(1, 2) {
		perm := r.Perm(len(blocks))
		sh := make([]*node, len(blocks))
		for i, j := range perm {
			sh[i] = blocks[j]
		}
		blocks = sh
	}
	top = append(top, blocks...)

	// MACRO / PASTE: move response runs of some methods into macros (depth <= 3)
	if r.Chance(1, 2) {
		top = g.macroize(top)
	}
	proj := &Project{Kind: "generated-valid", Valid: true, Root: "root.jst"}
	// INCLUDE: split into files
	g.files["root.jst"] = top
	g.order = []string{"root.jst"}
	if r.Chance(2, 3) {
		g.splitFiles("root.jst", 0)
	}
	g.render(proj)
	if g.lateDefect {
		proj.Valid = false
		proj.Kind = "generated-late-defect"
	}
	for f := range g.features {
		proj.Features = append(proj.Features, f)
	}
	sortStrings(proj.Features)
	return proj
}

func sortedFlat(m map[string]*node) []*node {
	var names []string
	for k := range m {
		names = append(names, k)
	}
	sortStrings(names)
	var out []*node
	for _, k := range names {
		out = append(out, m[k])
	}
	return out
}

func sortStrings(s []string) {
	for i := 1; i < len(s); i++ {
		for j := i; j > 0 && s[j] < s[j-1]; j-- {
			s[j], s[j-1] = s[j-1], s[j]
		}
	}
}

func isResponse(n *node) bool {
	return len(n.head) >= 3 && n.head[0] >= '1' && n.head[0] <= '5' && n.include == nil
}

func (g *gen) macroize(top []*node) []*node {
	// a macro with common error responses, pasted into methods that do not have those codes
	g.feat("macro")
	m1 := &node{head: "MACRO @errs", kids: []*node{{head: "418 any"}, {head: "503 any"}}, explicit: true}
	macros := []*node{m1}
	pasteName := "@errs"
	if g.r.Chance(1, 2) {
		g.feat("macro-nested")
		m2 := &node{head: "MACRO @errs2", kids: []*node{{head: "PASTE @errs"}, {head: "429 any"}}, explicit: true}
		macros = append(macros, m2)
		pasteName = "@errs2"
		if g.r.Chance(1, 2) {
			m3 := &node{head: "MACRO @errs3", kids: []*node{{head: "PASTE @errs2"}}, explicit: true}
			macros = append(macros, m3)
			pasteName = "@errs3"
		}
	}
	var visit func(n *node)
	visit = func(n *node) {
		for _, k := range n.kids {
			visit(k)
		}
		w := firstWord(n.head)
		isMethod := w == "GET" || w == "POST" || w == "PUT" || w == "PATCH" || w == "DELETE"
		if isMethod && g.r.Chance(1, 2) {
			n.kids = append(n.kids, &node{head: "PASTE " + pasteName})
		}
	}
	for _, n := range top {
		visit(n)
	}
	if g.r.Chance(1, 3) {
		// a macro holding a whole top-level block
		for i, n := range top {
			if firstWord(n.head) == "TYPE" {
				top[i] = &node{head: "PASTE @tmacro"}
				macros = append(macros, &node{head: "MACRO @tmacro", kids: []*node{n}, explicit: true})
				g.feat("macro-type")
				break
			}
		}
	}
	if g.r.Chance(1, 8) {
		// a defect INSIDE a macro body that is only found after unfolding (undefined type in a pasted
		// response): the error belongs to the macro's file, whatever file pastes it
		g.feat("macro-late-defect")
		g.lateDefect = true
		m1.kids = append(m1.kids, &node{head: "499 @noSuchTypeInMacro"})
	}
	// macros may be defined after use
	if g.r.Chance(1, 2) {
		return append(top, macros...)
	}
	out := append([]*node{top[0]}, macros...)
	return append(out, top[1:]...)
}

func firstWord(s string) string {
	if i := strings.IndexAny(s, " \t"); i >= 0 {
		return s[:i]
	}
	return s
}

func (g *gen) newFileName(dir string, depth int) string {
	g.nfile++
	sub := ""
	if g.r.Chance(1, 2) && depth < 3 {
		sub = g.r.Pick([]string{"inc", "mixins", "d"}) + "/"
	}
	name := fmt.Sprintf("f%d.jst", g.nfile)
	if g.r.Chance(1, 8) {
		// characters a shell, an environment expansion or a glob would treat specially: to the
		// builder they are bytes of a file name (seeded change C06-t)
		name = fmt.Sprintf(g.r.Pick([]string{"f%d-$HOME.jst", "${USER}f%d.jst", "$f%d.jst", "~f%d.jst", "f%d-$$.jst", "f%d[1]*.jst", "%%TEMP%%f%d.jst"}), g.nfile)
		g.feat("include-name-with-shell-characters")
	}
	return path.Join(dir, sub+name)
}

func relParam(fromFile, target string) string {
	d := path.Dir(fromFile)
	if d == "." {
		return target
	}
	return strings.TrimPrefix(target, d+"/")
}

// splitFiles moves runs of directives of file fn into included files (same directory or below).
func (g *gen) splitFiles(fn string, depth int) {
	if depth >= 4 || len(g.order) >= 6 {
		return
	}
	nodes := g.files[fn]
	start := 0
	if fn == "root.jst" {
		start = 1 // JSIGHT stays first in the root
	}
	// top-level run
	if len(nodes)-start >= 2 && g.r.Chance(2, 3) {
		i := g.r.Range(start, len(nodes)-1)
		j := g.r.Range(i+1, len(nodes))
		nf := g.newFileName(path.Dir(fn), depth)
		moved := append([]*node(nil), nodes[i:j]...)
		inc := &node{head: "INCLUDE", include: &genInc{param: relParam(fn, nf), target: nf, quoted: g.r.Chance(1, 4)}}
		rest := append([]*node(nil), nodes[:i]...)
		rest = append(rest, inc)
		rest = append(rest, nodes[j:]...)
		g.files[fn] = rest
		g.files[nf] = moved
		g.order = append(g.order, nf)
		g.feat("include")
		g.splitFiles(nf, depth+1)
		nodes = g.files[fn]
	}
	// child-level: responses of a method into a shared file, included from several methods
	if len(g.order) < 6 && g.r.Chance(1, 2) {
		var methods []*node
		var visit func(n *node)
		visit = func(n *node) {
			if n.explicit {
				return // an included file may not end inside an explicit context opened by its includer
			}
			w := firstWord(n.head)
			if w == "GET" || w == "POST" || w == "PUT" || w == "PATCH" || w == "DELETE" {
				methods = append(methods, n)
			}
			for _, k := range n.kids {
				visit(k)
			}
		}
		for _, n := range nodes {
			if firstWord(n.head) != "MACRO" {
				visit(n)
			}
		}
		if len(methods) > 0 {
			nf := g.newFileName(path.Dir(fn), depth)
			g.files[nf] = []*node{{head: "402 any"}, {head: "451 empty"}}
			g.order = append(g.order, nf)
			cnt := 0
			for _, m := range methods {
				if cnt == 0 || g.r.Chance(1, 2) {
					m.kids = append(m.kids, &node{head: "INCLUDE", include: &genInc{param: relParam(fn, nf), target: nf, quoted: g.r.Chance(1, 4)}})
					cnt++
				}
			}
			if cnt > 1 {
				g.feat("include-repeat")
			}
			g.feat("include-child")
		}
	}
}

// ---------- rendering ----------

type renderer struct {
	sb   strings.Builder
	line int
	file string
	kws  []KW
	r    *Rand
	nl   string
}

func (w *renderer) writeLine(s string) {
	w.sb.WriteString(s)
	w.sb.WriteString(w.nl)
	w.line++
}

func (w *renderer) node(n *node, ind string) {
	head := n.head
	if n.include != nil {
		p := n.include.param
		if n.include.quoted {
			p = `"` + p + `"`
		}
		head = "INCLUDE " + p
	}
	w.kws = append(w.kws, KW{File: w.file, Off: w.sb.Len() + len(ind), Line: w.line, Word: firstWord(head)})
	w.writeLine(ind + head)
	for _, b := range n.body {
		if b == "" {
			// an "empty" line of a text body: truly empty, or only blanks - fewer or more than the
			// indentation of the text around it
			switch w.r.Intn(4) {
			case 0:
				w.writeLine(strings.Repeat(" ", w.r.Range(1, len(ind)+4)))
			case 1:
				w.writeLine("\t")
			default:
				w.writeLine("")
			}
		} else {
			w.writeLine(ind + "  " + b)
		}
	}
	if len(n.kids) > 0 {
		if n.explicit {
			w.writeLine(ind + "(")
		}
		for _, k := range n.kids {
			w.node(k, ind+"  ")
		}
		if n.explicit {
			w.writeLine(ind + ")")
		}
	}
}

func (g *gen) render(p *Project) {
	for _, fn := range g.order {
		w := &renderer{file: fn, line: 1, r: g.r, nl: "\n"}
		crlf := g.r.Chance(1, 5)
		if crlf {
			w.nl = "\r\n"
			g.feat("crlf")
		} else if g.r.Chance(1, 12) {
			w.nl = "\r"
			g.feat("cr-only")
		}
		for i, n := range g.files[fn] {
			if i > 0 && g.r.Chance(2, 3) {
				w.writeLine("")
			}
			if g.r.Chance(1, 10) {
				w.writeLine("# a comment")
			}
			w.node(n, "")
		}
		p.Files = append(p.Files, GenFile{Path: fn, Data: []byte(w.sb.String()), CRLF: crlf})
		p.Keywords = append(p.Keywords, w.kws...)
	}
}
