package main

import (
	"fmt"
	"path"
	"strings"
)

// "Light" projects for the INCLUDE simulations (C14, and part of C01/C07): files that are
// semantically trivial (JSIGHT, TAG, SERVER, one-line methods) and INCLUDE-heavy. Every
// directive is on one line, there are no multi-line bodies, so the reference model can find
// the INCLUDE directives in the bytes the disk served without knowing the language.

// hostile and ordinary INCLUDE parameters. %D is replaced by an absolute decoy path.
var pathAlphabet = []string{
	"..", ".", "../secret.jst", "../q/other.jst", "../../top.jst", "./b.jst", "d/../b.jst", "d/./c.jst", "d/..", "d/.",
	`"/etc/passwd"`, `"/etc/hostname"`, `a\b.jst`, `"d\\c.jst"`, `"..\\secret.jst"`,
	"..x", "x..", ".hidden", "d/.hidden", "...", "d/..x", `""`, `" "`, "d//c.jst", "d/", "d",
	"nosuch.jst", "d/nosuch.jst", "nodir/x.jst", "ü.jst", "b.jst/x", `"b.jst"`, `"d/c.jst"`,
	"aaaaaaaaaaaaaaaaaaaaaaaaaaaaaaaaaaaaaaaaaaaaaaaaaaaaaaaaaaaaaaaaaaaaaaaaaaaaaaaaaaaaaaaaaaaaaaaaaaaaaaaaaaaaaaaaaaaaaaaaaaaaaaaaaaaaaaaaaaaaaaaaaaaaaaaaaaaaaaaaaaaaaaaaaaaaaaaaaaaaaaaaaaaaaaaaaaaaaaaaaaaaaaaaaaaaaaaaaaaaaaaaaaaaaaaaaaaaaaaaaaaaaaaaaaaaaaaaaaaaaaaaaaaaaaaaaaaaaaaaa.jst",
	// look-alikes that a compatibility normalisation (NFKC), a case folding or an unescaping turns into an escape route
	"\u2025/secret.jst", "\uff0e\uff0e/secret.jst", "\u2024\u2024/secret.jst", "d/\uff0e\uff0e\uff0f\uff0e\uff0e\uff0fsecret.jst", "..\uff0fsecret.jst", "\uff0e\uff0e\uff3csecret.jst", "\u2025/q/other.jst", "..\u2215secret.jst",
	"..\t", "%2e%2e/secret.jst", "d/c.jst/..", "~/x.jst", "$HOME/x.jst", "d/../../secret.jst", "....//secret.jst",
}

type lightGen struct {
	r     *Rand
	files map[string][]string // path -> lines
	order []string
	n     int
	kws   []KW
}

func (g *lightGen) trivial() string {
	g.n++
	switch g.r.Intn(4) {
	case 0:
		return fmt.Sprintf("TAG @t%d", g.n)
	case 1:
		return fmt.Sprintf("GET /p%d", g.n)
	case 2:
		return fmt.Sprintf("TAG @t%d // note %d", g.n, g.n)
	default:
		return fmt.Sprintf("# comment %d", g.n)
	}
}

func includeLineText(param string, r *Rand) string {
	s := "INCLUDE " + param
	switch r.Intn(8) {
	case 0:
		s = "  " + s
	case 1:
		s += "   "
	case 2:
		s += " # why not"
	case 3:
		s = "INCLUDE   " + param
	}
	return s
}

// genLight builds an include-heavy light project. mode: "graph" (ordinary include graphs with
// repeats and diamonds), "hostile" (parameters from the path alphabet), "cycle" (static include
// cycles of length 1-5, possibly through the root).
func genLight(r *Rand, mode string) *Project {
	g := &lightGen{r: r, files: map[string][]string{}}
	p := &Project{Kind: "light-" + mode, Root: "root.jst"}
	names := []string{"root.jst", "b.jst", "d/c.jst", "d/e/f.jst", "g.jst", "d/h.jst"}
	nf := r.Range(2, 5)
	names = names[:nf+1]
	if r.Chance(1, 3) {
		// files of the same base name in different directories (index.jst here, index.jst there)
		names = append(names, []string{"d/b.jst", "d/e/b.jst", "d/g.jst", "d/e/c.jst"}[r.Intn(4)])
		if r.Chance(1, 2) {
			names = append(names, []string{"d/e/g.jst", "d/root.jst"}[r.Intn(2)])
		}
	}
	if r.Chance(1, 3) {
		// siblings whose names differ only in case are different files (on a case-sensitive file system)
		names = append(names, []string{"B.jst", "d/C.jst", "G.JST", "B.JST"}[r.Intn(4)])
		if r.Chance(1, 2) {
			names = append(names, "d/e/F.jst")
		}
	}
	// which file may include which: only same directory or below
	canInclude := func(from, to string) (string, bool) {
		d := path.Dir(from)
		if d == "." {
			return to, true
		}
		if strings.HasPrefix(to, d+"/") {
			return strings.TrimPrefix(to, d+"/"), true
		}
		return "", false
	}
	for _, n := range names {
		var ll []string
		if n == "root.jst" {
			ll = append(ll, "JSIGHT 0.3")
		}
		for i := 0; i < r.Range(0, 2); i++ {
			ll = append(ll, g.trivial())
		}
		g.files[n] = ll
	}
	addInc := func(from, param string) {
		ll := g.files[from]
		// insert after a random position (after JSIGHT in the root)
		lo := 0
		if from == "root.jst" {
			lo = 1
		}
		pos := lo + r.Intn(len(ll)-lo+1)
		ins := []string{includeLineText(param, r)}
		if mode != "hostile" && r.Chance(1, 10) {
			// a block comment that spans lines between the keyword and the file name: the directive
			// (and an entry of an include trace) is on the line of the keyword (seeded change C07-t)
			// (one entry, so that no later insertion lands inside it; \x1e becomes the file's line break)
			ins = []string{"INCLUDE ### the part\x1e  about this\x1e### " + param}
			if r.Chance(1, 2) {
				ins = []string{"INCLUDE ### " + []string{"one", "a b c"}[r.Intn(2)] + "\x1e###   " + param + " # x"}
			}
		}
		if r.Chance(1, 12) {
			// a directive that is wrong where it stands, directly in front of the INCLUDE: it is still
			// pending when the included file is opened, and fails when that file's first keyword arrives
			ins = append([]string{[]string{"200 any", "Body", "Protocol json-rpc-2.0", "Version 1.0"}[r.Intn(4)]}, ins...)
			p.Kind = "light-" + mode + "-ctx" // not a project that builds: no planted keyword fault (C07 c) on top of it
		}
		ll = append(ll[:pos], append(ins, ll[pos:]...)...)
		g.files[from] = ll
	}
	switch mode {
	case "graph", "hostile":
		// a DAG over the files: each non-root file is included from at least one earlier file that can reach it
		for i := 1; i < len(names); i++ {
			var cands []int
			for j := 0; j < i; j++ {
				if _, ok := canInclude(names[j], names[i]); ok {
					cands = append(cands, j)
				}
			}
			k := 1
			if r.Chance(1, 3) {
				k = 2 // included from two places: repeat / diamond
			}
			for c := 0; c < k; c++ {
				j := cands[r.Intn(len(cands))]
				prm, _ := canInclude(names[j], names[i])
				if r.Chance(1, 5) {
					prm = `"` + prm + `"`
				}
				addInc(names[j], prm)
				if c == 0 && r.Chance(1, 6) {
					addInc(names[j], prm) // the same file twice from one file
				}
			}
		}
		if mode == "hostile" {
			for i := 0; i < r.Range(1, 3); i++ {
				from := names[r.Intn(len(names))]
				prm := pathAlphabet[r.Intn(len(pathAlphabet))]
				if r.Chance(1, 3) && !strings.HasPrefix(prm, `"`) {
					// byte noise inside the parameter: control characters, DEL, C1 controls, invalid UTF-8,
					// invisible code points - whatever the parameter says, it is validated as it is written
					noise := []string{"\x01", "\x07", "\x1b", "\x7f", "\x80", "\xc2\x85", "\xc2\xa0", "\xff", "\xe2\x80\x8b", "\xe2\x80\xae", "%00", "%2f"}
					for k := 0; k < r.Range(1, 2); k++ {
						pos := r.Intn(len(prm) + 1)
						prm = prm[:pos] + noise[r.Intn(len(noise))] + prm[pos:]
					}
				}
				addInc(from, prm)
			}
			p.Features = append(p.Features, "hostile-params")
		}
	case "cycle":
		// a cycle of length L over files in one directory chain (root.jst, b.jst, g.jst are siblings)
		sib := []string{"root.jst", "b.jst", "g.jst"}
		if r.Chance(1, 2) {
			sib = []string{"b.jst", "g.jst"} // cycle not through the root: root includes b first
			addInc("root.jst", "b.jst")
		}
		for _, s := range sib {
			if _, ok := g.files[s]; !ok {
				g.files[s] = []string{g.trivial()}
				names = append(names, s)
			}
		}
		L := r.Range(1, len(sib))
		for i := 0; i < L; i++ {
			addInc(sib[i], sib[(i+1)%L])
		}
		p.Features = append(p.Features, fmt.Sprintf("cycle-len-%d", L))
	}
	// hostile-looking names that are perfectly legal exist on disk, so that reaching them is observable
	extra := map[string]string{".hidden": "TAG @hidden\n", "..x": "TAG @dotdotx\n", "x..": "TAG @xdotdot\n", "...": "TAG @dots\n", "d/.hidden": "TAG @dhidden\n", "d/..x": "TAG @ddotdotx\n", "ü.jst": "TAG @uml\n"}
	seen := map[string]bool{}
	for _, n := range names {
		if seen[n] {
			continue
		}
		seen[n] = true
		nl := "\n"
		crlf := r.Chance(1, 5)
		if crlf {
			nl = "\r\n"
		} else if r.Chance(1, 8) {
			nl = "\r" // CR-only files are legal too (classic Mac line endings)
			p.Features = append(p.Features, "cr-only-file")
		}
		text := strings.ReplaceAll(strings.Join(g.files[n], nl), "\x1e", nl)
		if len(g.files[n]) > 0 && !r.Chance(1, 8) { // sometimes no final newline
			text += nl
		}
		p.Files = append(p.Files, GenFile{Path: n, Data: []byte(text), CRLF: crlf})
	}
	if mode == "hostile" {
		for k, v := range extra {
			p.Files = append(p.Files, GenFile{Path: k, Data: []byte(v)})
		}
		sortFiles(p.Files[len(p.Files)-len(extra):])
	}
	return p
}

func sortFiles(f []GenFile) {
	for i := 1; i < len(f); i++ {
		for j := i; j > 0 && f[j].Path < f[j-1].Path; j-- {
			f[j], f[j-1] = f[j-1], f[j]
		}
	}
}

// special configurations that C01 lists explicitly
var specialKinds = []string{
	"missing-root", "root-is-directory", "empty-root", "root-only-newlines", "include-extra-parameter", "include-annotation",
	"starts-with-paren", "annotation-end-before-begin", "include-empty-name", "macro-cycle-2", "macro-cycle-3", "macro-self",
	"include-root", "empty-included-file", "empty-included-in-explicit-context", "paste-in-macro-chain", "nul-bytes", "invalid-utf8",
	"truncated-directive", "cr-only", "unclosed-quote", "deep-include-chain", "only-jsight", "bom", "include-no-parameter",
	"paren-in-included", "include-dir", "keyword-at-eof", "macro-cycle-via-include",
	"include-fifo", "nested-include-fifo", "root-fifo", "nul-pairs",
}

func genSpecial(r *Rand, kind string) *Project {
	p := &Project{Kind: "special:" + kind, Root: "root.jst"}
	file := func(n, s string) { p.Files = append(p.Files, GenFile{Path: n, Data: []byte(s)}) }
	switch kind {
	case "missing-root":
		p.Root = "nosuch.jst"
		file("other.jst", "JSIGHT 0.3\n")
	case "root-is-directory":
		p.Root = "rootdir"
		file("rootdir/", "")
	case "empty-root":
		file("root.jst", "")
	case "root-only-newlines":
		file("root.jst", strings.Repeat("\n", r.Range(1, 5)))
	case "include-extra-parameter":
		file("root.jst", "JSIGHT 0.3\nINCLUDE b.jst extra\n")
		file("b.jst", "TAG @t\n")
	case "include-annotation":
		file("root.jst", "JSIGHT 0.3\nINCLUDE b.jst // note\nGET /a\n")
		file("b.jst", "TAG @t\n")
	case "starts-with-paren":
		file("root.jst", "(\nJSIGHT 0.3\n)\n")
	case "annotation-end-before-begin":
		file("root.jst", "JSIGHT 0.3\nGET /a /*/\n")
	case "include-empty-name":
		file("root.jst", "JSIGHT 0.3\nINCLUDE \"\"\n")
	case "include-no-parameter":
		file("root.jst", "JSIGHT 0.3\nINCLUDE\nGET /a\n")
	case "macro-self":
		file("root.jst", "JSIGHT 0.3\nMACRO @a\n(\n  PASTE @a\n)\nGET /x\n  PASTE @a\n")
	case "macro-cycle-2":
		file("root.jst", "JSIGHT 0.3\nMACRO @a\n(\n  PASTE @b\n)\nMACRO @b\n(\n  PASTE @a\n)\nGET /x\n  200 any\n  PASTE @a\n")
	case "macro-cycle-3":
		file("root.jst", "JSIGHT 0.3\nMACRO @a\n(\n  200 any\n  PASTE @b\n)\nMACRO @b\n(\n  PASTE @c\n)\nMACRO @c\n(\n  PASTE @a\n)\nGET /x\n  PASTE @c\n")
	case "macro-cycle-via-include":
		file("root.jst", "JSIGHT 0.3\nMACRO @a\n(\n  INCLUDE m.jst\n)\nGET /x\n  PASTE @a\n")
		file("m.jst", "PASTE @b\n")
		file("n.jst", "x")
		p.Files[0].Data = append(p.Files[0].Data, []byte("MACRO @b\n(\n  PASTE @a\n)\n")...)
	case "include-root":
		file("root.jst", "JSIGHT 0.3\nTAG @t\nINCLUDE root.jst\n")
	case "empty-included-file":
		file("root.jst", "JSIGHT 0.3\nINCLUDE b.jst\nGET /a\n")
		file("b.jst", "")
	case "empty-included-in-explicit-context":
		file("root.jst", "JSIGHT 0.3\nURL /a\n(\n  INCLUDE b.jst\n)\n")
		file("b.jst", "")
	case "paren-in-included":
		file("root.jst", "JSIGHT 0.3\nURL /a\n  INCLUDE b.jst\n")
		file("b.jst", ")\n")
	case "paste-in-macro-chain":
		var sb strings.Builder
		sb.WriteString("JSIGHT 0.3\n")
		n := r.Range(3, 8)
		for i := 0; i < n; i++ {
			fmt.Fprintf(&sb, "MACRO @m%d\n(\n  PASTE @m%d\n)\n", i, i+1)
		}
		fmt.Fprintf(&sb, "MACRO @m%d\n(\n  200 any\n)\nGET /x\n  PASTE @m0\n", n)
		file("root.jst", sb.String())
	case "nul-bytes":
		file("root.jst", "JSIGHT 0.3\nGET /a\x00b\n  200 any\x00\n")
	case "nul-pairs":
		// two zero bytes (or other bytes the scanner refuses) at two of a dozen places: inside the
		// notes of schema and enum bodies (measured and skipped by the schema library), in texts,
		// annotations, parameters and comments (walked byte by byte). Each place alone is handled;
		// the second one is reached in a state the first one prepared
		tmpl := "JSIGHT 0.3\nTYPE @a\n  {} // note§\nENUM @e\n  [1 // one§\n  ]\n# a comment§\nGET /x§ // annotation§\n  Description\n    te§xt\n  200 any\nGET /y\n  Description\n  (\n    in§side\n  )\n  200\n    {\"k\": 1 // rule note§\n    }\nTAG @t§\n"
		parts := strings.Split(tmpl, "§")
		a := r.Intn(len(parts) - 1)
		b := r.Intn(len(parts) - 1)
		bad := []string{"\x00", "\x00", "\x00", "\x01", "\x7f"}[r.Intn(5)]
		var sb strings.Builder
		for i, pt := range parts {
			sb.WriteString(pt)
			if i == a || i == b {
				sb.WriteString(bad)
			}
		}
		file("root.jst", sb.String())
	case "invalid-utf8":
		file("root.jst", "JSIGHT 0.3\nGET /a\xff\xfe // \xc3\x28\n  200\n    {\"k\xed\xa0\x80\": \"\xf8\"}\n")
	case "truncated-directive":
		words := []string{"JSIG", "JSIGHT", "JSIGHT 0.", "JSIGHT 0.3\nGE", "JSIGHT 0.3\nGET", "JSIGHT 0.3\nGET /a\n  20", "JSIGHT 0.3\nTYPE", "JSIGHT 0.3\nTYPE @a\n  {", "JSIGHT 0.3\nINCLUD", "JSIGHT 0.3\nINCLUDE \"b", "JSIGHT 0.3\nMACRO @a\n(", "JSIGHT 0.3\nURL /a\n  Protocol json-rpc-2.0\n  Method"}
		file("root.jst", words[r.Intn(len(words))])
	case "cr-only":
		file("root.jst", "JSIGHT 0.3\rGET /a\r  200 any\rINCLUDE b.jst\r")
		file("b.jst", "TAG @t\r")
	case "unclosed-quote":
		file("root.jst", "JSIGHT 0.3\nINFO\n  Title \"abc\nGET /a\n")
	case "deep-include-chain":
		n := r.Range(5, 40)
		for i := 0; i < n; i++ {
			nm := "root.jst"
			if i > 0 {
				nm = fmt.Sprintf("c%d.jst", i)
			}
			head := ""
			if i == 0 {
				head = "JSIGHT 0.3\n"
			}
			file(nm, fmt.Sprintf("%sTAG @t%d\nINCLUDE c%d.jst\n", head, i, i+1))
		}
		file(fmt.Sprintf("c%d.jst", n), "TAG @last\n")
	case "only-jsight":
		file("root.jst", "JSIGHT 0.3")
	case "bom":
		file("root.jst", "\xef\xbb\xbfJSIGHT 0.3\nGET /a\n")
	case "include-dir":
		file("root.jst", "JSIGHT 0.3\nINCLUDE d\n")
		file("d/", "")
	case "include-fifo":
		// the INCLUDE target exists and is not a directory - and not a regular file either
		file("root.jst", "JSIGHT 0.3\nGET /a\n  200 any\nINCLUDE pipe.jst\n")
		p.Files = append(p.Files, GenFile{Path: "pipe.jst", Special: "fifo"})
	case "nested-include-fifo":
		file("root.jst", "JSIGHT 0.3\nINCLUDE d/in.jst\n")
		file("d/in.jst", "TAG @t\nINCLUDE e/pipe.jst\n")
		p.Files = append(p.Files, GenFile{Path: "d/e/pipe.jst", Special: "fifo"})
	case "root-fifo":
		p.Files = append(p.Files, GenFile{Path: "root.jst", Special: "fifo"})
	case "keyword-at-eof":
		kws := []string{"GET", "URL", "TYPE", "ENUM", "MACRO", "PASTE", "INCLUDE", "INFO", "SERVER", "TAG", "Request", "200", "Path", "Query", "Body", "Headers", "Description", "Protocol", "Method", "Params", "Result", "Tags", "OperationId", "Title", "Version", "BaseUrl"}
		file("root.jst", "JSIGHT 0.3\n"+kws[r.Intn(len(kws))])
	default:
		panic("unknown special kind " + kind)
	}
	return p
}

// genMacroGraph: a random MACRO/PASTE call graph (2-5 macros, edges at random, cyclic in most
// cases, cycle length 1-4). Each PASTE edge sits under a randomly chosen container inside the
// macro body: directly in the macro, under a method, under a response or a Request with an
// inline schema body, under a URL - a recursion check that only follows some kinds of nesting
// lets the expansion recurse for ever. One macro is pasted from outside.
func genMacroGraph(r *Rand) *Project {
	p := &Project{Kind: "macro-graph", Root: "root.jst"}
	n := r.Range(2, 5)
	var sb strings.Builder
	sb.WriteString("JSIGHT 0.3\n")
	edges := make([][]int, n)
	for i := 0; i < n; i++ {
		for k := 0; k < r.Range(0, 2); k++ {
			edges[i] = append(edges[i], r.Intn(n))
		}
	}
	if r.Chance(3, 4) {
		// force a cycle of length L through macros 0..L-1
		L := r.Range(1, n)
		for i := 0; i < L; i++ {
			edges[i] = append(edges[i], (i+1)%L)
		}
		p.Features = append(p.Features, fmt.Sprintf("macro-cycle-len-%d", L))
	}
	path := 0
	nearMiss := r.Chance(1, 4)
	if nearMiss {
		p.Features = append(p.Features, "near-miss-macro-names")
	}
	edge := func(ind string, to int) string {
		paste := fmt.Sprintf("PASTE @g%d", to)
		if nearMiss && r.Chance(1, 3) {
			// a near miss of the macro's name: another letter case, or a longer name that starts
			// with it. No macro of that name exists: "macro not found", whatever the graph looks like
			paste = []string{fmt.Sprintf("PASTE @G%d", to), fmt.Sprintf("PASTE @g%dx", to), fmt.Sprintf("PASTE @g%d ", to)}[r.Intn(3)]
		}
		path++
		switch r.Intn(6) {
		case 0:
			return ind + paste + "\n"
		case 1:
			return fmt.Sprintf("%sGET /mg%d\n%s  200 any\n%s  %s\n", ind, path, ind, ind, paste)
		case 2:
			return fmt.Sprintf("%s2%02d\n%s  {\"x\": %d}\n%s  %s\n", ind, path%100, ind, path, ind, paste)
		case 3:
			return fmt.Sprintf("%sPOST /mg%d\n%s  Request\n%s    {\"r\": %d}\n%s    %s\n%s  200 any\n", ind, path, ind, ind, path, ind, paste, ind)
		case 4:
			return fmt.Sprintf("%sURL /mu%d\n%s  GET\n%s    201\n%s      [1, 2]\n%s      %s\n", ind, path, ind, ind, ind, ind, paste)
		default:
			return fmt.Sprintf("%s4%02d any\n%s%s\n", ind, path%100, ind, paste)
		}
	}
	for i := 0; i < n; i++ {
		fmt.Fprintf(&sb, "MACRO @g%d\n(\n", i)
		if len(edges[i]) == 0 || r.Chance(1, 2) {
			fmt.Fprintf(&sb, "  5%02d any\n", i)
		}
		for _, to := range edges[i] {
			sb.WriteString(edge("  ", to))
		}
		sb.WriteString(")\n")
	}
	fmt.Fprintf(&sb, "GET /outside\n  200 any\n  PASTE @g%d\n", r.Intn(n))
	if r.Chance(1, 3) {
		fmt.Fprintf(&sb, "PASTE @g%d\n", r.Intn(n))
	}
	p.Files = []GenFile{{Path: "root.jst", Data: []byte(sb.String())}}
	return p
}

// richDoc: one small document that uses every lexical construct of the language (all
// directive kinds, # and ### comments, // and /* */ annotations, quoted parameters with
// escapes, explicit contexts, jsight / regex / enum / text bodies). The C01 "truncate" phase
// cuts it at EVERY byte offset, in three line-ending conventions, optionally followed by one
// extra byte - the crash-consistency habit of "a fault at every point", aimed at the scanner.
const richDoc = `JSIGHT 0.3
# line comment
### block
comment ###
INFO # about
  Title "Rich \"API\" \\ doc"
  Version 1.0
  Description
    Some text.

    More text (with parens) and a # hash.
SERVER @main /* multi
line */
  BaseUrl "https://example.com/"
TAG @t1 // tag one
  Description
    tag text
  TAG @t2
TYPE @cat // a cat
  {
    "id": 1, // {min: 0} - note
    "name": "Tom", /* block note */
    "kind": "a", // {enum: @kinds}
    "tail": @tail, // {optional: true}
    "tags": ["x", "y"]
  }
TYPE @tail regex
  /[a-z]{2,4}-\/[0-9]+/
ENUM @kinds
  [
    "a", // first
    "b"
  ]
ENUM @sizes
  [
    1, /* one
    more */ 2
  ] /* trailing
  note */
URL /cats/{id}
(
  Path
    {"id": 1}
  GET // read
    Tags @t1 @t2
    OperationId getCat
    Query "a=1&b=2" htmlFormEncoded
      {"a": 1}
    200 @cat
    404 any
    PASTE @errors
  POST
    Request
      Headers
        {"X-Token": "abc"}
      Body
        @cat
    201
      Headers
        {"Location": "x"}
      Body regex
        /ok/
)
URL /rpc
  Protocol json-rpc-2.0
  Method ping // ping
    Params
      [1, 2]
    Result
      true
DELETE /cats/{id}/tail
  204 empty
  INCLUDE inc.jst
MACRO @errors
(
  500
    { // {additionalProperties: true}
      "error": "x"
    }
)
INCLUDE "inc2.jst" # trailing comment
`

// tailBytes: what follows the cut. The scanner's state machine meets each of them in every one of
// its states, as the last byte before the end of the file.
var tailBytes = []string{"", "\\", "\"", "/", "\x7f", "\x00", "\xff", "\r", "#", "# c", "(", ")", "@", "{", "[", " "}

// tailVariants: (line convention, tail) pairs per cut - the first four tails under all three
// conventions, the others under LF only.
var tailVariants = func() (v [][2]int) {
	for t := range tailBytes {
		for conv := 0; conv < 3; conv++ {
			if t < 4 || conv == 0 {
				v = append(v, [2]int{conv, t})
			}
		}
	}
	return v
}()

func truncateCount() int { return (len(richDoc) + 1) * len(tailVariants) }

func genTruncated(index int) *Project {
	n := len(richDoc) + 1
	off := index % n
	tv := tailVariants[(index/n)%len(tailVariants)]
	conv, extra := tv[0], tv[1]
	doc := richDoc[:off]
	switch conv {
	case 1:
		doc = strings.ReplaceAll(doc, "\n", "\r\n")
	case 2:
		doc = strings.ReplaceAll(doc, "\n", "\r")
	}
	doc += tailBytes[extra]
	p := &Project{Kind: "truncated-rich-document", Root: "root.jst", Name: fmt.Sprintf("truncate@%d/%d/%d", off, conv, extra)}
	p.Files = []GenFile{{Path: "root.jst", Data: []byte(doc)}, {Path: "inc.jst", Data: []byte("502 any\n")}, {Path: "inc2.jst", Data: []byte("TAG @t3\n")}}
	return p
}
