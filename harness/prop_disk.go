package main

import (
	"encoding/json"
	"fmt"
	"path/filepath"
	"strings"

	"simrt"
)

// The sim-disk engine serves three properties with one simulation and three oracles:
//
//	C01  building is total (fault and configuration slice)
//	C14  INCLUDE only reads inside the project; cycles are errors (refinement against model.go)
//	C07  errors carry a truthful location and include trace
//
// A check reports only its own property; what the other two oracles see is counted under
// foreign_events.

type diskEngine struct{ prop string }

func init() {
	for _, p := range []string{"C01", "C07", "C14"} {
		engines[p] = diskEngine{prop: p}
	}
	faults := "fault kinds: enoent, eisdir, enotdir, eloop, dangling, torn(offset), flip(offset,mask), setbyte, filler-tail(offset,filler), lost-zero/lost-stale(sector), dup(sector), misdirect(sector,other file), " +
		"replace (stale file / swap after stat / change between two INCLUDEs of one file / cycle created mid-build), eacces, eio (the last two are stubbed syscall results); " +
		"triggers: before the build, or before the n-th stat/read of a path; 0-3 faults per run, a random subset of kinds enabled per run, ~20% of runs fault-free; sector size drawn per run from {1,4,16,64,512}. "
	evidenceInfo["C01"] = evInfo{
		rule: "one evaluation = one project built once through kit.NewJapi (root from disk) or kit.NewJApiFromFile (root in memory, INCLUDEs from disk) on the sim-disk under a seeded fault plan. " + faults +
			"Projects: generator (valid), light include graphs (ordinary, hostile parameters, static cycles), 29 special configurations (missing/empty/directory root, macro cycles, malformed INCLUDEs, NUL/invalid UTF-8, truncated directives, ...), corpus. " +
			"Phase 'depth' builds 12 documents with one construct nested or chained 100 000 levels deep (arrays, objects, macro chain, parentheses, regex groups, enum, annotation, or-rule, include chain of 2 000 files ...) under a 64 MB stack limit. Phase 'scaling' first builds 38 project shapes (tags, methods, bodies, type chains and stars, allOf chains, includes, pastes, macro chains, responses, JSON-RPC, macro and include doubling, path parameters, enum values, or-types ...) at size n and 4n, measuring seam operations and bytes allocated, and requires <= 8x the seam operations (deterministic work measure; linear = 4x). " +
			"Phase 'truncate' builds a document that uses every lexical construct cut at every byte offset x 3 line-ending conventions x 4 trailing bytes. " +
			"Oracle: outcome is a catalog or a structured error value; no panic; the worker process survives; <= 5000 file accesses; no hang; no deadlock among goroutines the build starts itself; work (seam operations executed) <= 150 per byte served once above 400 000. " +
			"non-trivial = at least one fault fired or the project is a hostile/special configuration; distinct = distinct (configuration kind, fired-fault multiset, access-log shape, outcome class) tuples",
		components: stdComponents,
		assumptions: []string{
			"claimed for the fault/configuration slice: arbitrary byte strings are reached only through stored-byte faults applied to generated and corpus projects, not through a grammar fuzzer",
			"exponential macro expansion (2^n pastes from n lines) is inherent in the language and not generated",
			"a run is a hang when it exceeds the per-job watchdog (20 s wall; typical runs take < 5 ms) and does so again when re-executed alone in a fresh process",
		},
	}
	evidenceInfo["C14"] = evInfo{
		rule: "one evaluation = one include-heavy project built on the sim-disk; the access log (every mediated file-system call: op, raw path, result, bytes served) is checked against an independent reference model of INCLUDE resolution " +
			"(refinement: the log must be a prefix of the model's predicted stat/read sequence; refused parameters => no access may follow; cycle => no third nested instance; catalog outcome only if every predicted access happened) " +
			"plus a model-independent safety clause on every access (below the project directory, no '..' segment, no decoy, only stat/read). " +
			"Phase 'alphabet' first tries every parameter string over 9 tokens (a . / \\ .. d b.jst \\x01 \\xff) up to length 3 (quick) / 5 (thorough) as the parameter of one INCLUDE in a fixed layout. " + faults +
			"non-trivial = the model walked at least one INCLUDE; distinct = distinct (sequence of (op, project-relative path, result) in the access log, outcome class) tuples",
		components: stdComponents,
		assumptions: []string{
			"the model finds INCLUDE directives line-anchored in the bytes the disk served; it is asserted on projects whose files have no multi-line bodies (light projects) and on generated projects (the generator never starts a body line with INCLUDE); on corpus files and after byte-garbage faults only the safety clause is asserted",
			"the model abstains (counted) where the property is silent: a second parameter or an annotation after the file name, empty file name",
			"an over-cautious refusal (e.g. of d/.hidden) is not a violation; only consulting the file system for a parameter that must be refused is",
		},
	}
	evidenceInfo["C07"] = evInfo{
		rule: "one evaluation = one project built on the sim-disk that ends in an error (runs ending in a catalog are counted as trivial). Oracle (a) the error's file was served by the disk, its content is one of the served versions, index <= len, line/column equal an independent recomputation, quote is that line; " +
			"(b) the include trace equals, innermost first, the chain of INCLUDE lines of SOME file instance in the dynamic include tree reconstructed from the access log whose path and served bytes match the error's file (unique when the same path was served in different versions); " +
			"(c) errors the model can locate in advance (missing/directory/unreadable/refused INCLUDE target; illegal byte written over a directive keyword of a light project) are at that file and line. " + faults +
			"non-trivial = the run ended in an error; distinct = distinct (error message class, depth of the failing instance, fired-fault multiset, access-log shape) tuples",
		components: stdComponents,
		assumptions: []string{
			"line/column are recomputed for files with a single line-ending convention (LF, CRLF or CR); files with mixed endings after corruption are skipped for that clause and counted",
			"for an error index equal to the file length either the true position or the library's 'unknown' (0,0) is accepted",
			"(b) is asserted only when the access log is completely explained by the model (no abstention before the failing instance) and no fault copied bytes between files",
		},
	}
}

func (e diskEngine) Plan(tier string) []Phase {
	switch e.prop {
	case "C14":
		if tier == "thorough" {
			// the whole token alphabet (9 tokens incl. a control character and an invalid UTF-8 byte) up to length 5 (66 429 parameters), then the seeded search
			return []Phase{{Mode: "alphabet", Count: alphabetCount(5)}, {Mode: "random", Share: 1}}
		}
		return []Phase{{Mode: "alphabet", Count: alphabetCount(3)}, {Mode: "random", Share: 1}}
	case "C01":
		// "scaling": one job per shape; the same project at size n and 4n must not need more than 8x
		// the work (seam operations, counted deterministically; linear = 4x, quadratic = 16x)
		// "truncate": a document that uses every lexical construct, cut at every byte offset, in three
		// line-ending conventions, optionally followed by one extra byte (~20 000 builds, a few seconds)
		if tier == "thorough" {
			return []Phase{{Mode: "scaling", Count: len(scaleShapes)}, {Mode: "depth", Count: len(depthShapes)}, {Mode: "paths", Count: pathEnumCount(3)}, {Mode: "truncate", Count: truncateCount()}, {Mode: "random", Share: 0.7}, {Mode: "sweep", Share: 0.3}}
		}
		// "paths": every URL path of 1-2 (thorough: 1-3) segments over an alphabet of 21 unusual segments, in eight settings
		// "depth": one construct nested 100 000 levels deep per job (recursion that follows the input)
		return []Phase{{Mode: "scaling", Count: len(scaleShapes)}, {Mode: "depth", Count: len(depthShapes)}, {Mode: "paths", Count: pathEnumCount(2)}, {Mode: "truncate", Count: truncateCount()}, {Mode: "random", Share: 0.85}, {Mode: "sweep", Share: 0.15}}
	}
	return []Phase{{Mode: "random", Share: 1}}
}

var byteFaultKinds = []string{"flip", "setbyte", "lost-zero", "lost-stale", "dup", "misdirect", "filler-tail"}
var structFaultKinds = []string{"enoent", "eisdir", "enotdir", "eloop", "dangling", "torn", "replace", "eacces", "eio", "grow"}

func isByteGarbage(k string) bool {
	return k == "misdirect" || k == "dup" || k == "lost-stale"
}

// staleVersion: an older version of a file - some trailing lines missing.
func staleVersion(data []byte, r *Rand) []byte {
	ll := strings.SplitAfter(string(data), "\n")
	if len(ll) <= 1 {
		return []byte{}
	}
	return []byte(strings.Join(ll[:r.Intn(len(ll))], ""))
}

func genFaults(r *Rand, p *Project, light bool) []Fault {
	if r.Chance(1, 5) || len(p.Files) == 0 {
		return nil
	}
	kinds := append([]string(nil), structFaultKinds...)
	if !light {
		kinds = append(kinds, byteFaultKinds...)
	}
	var enabled []string
	for _, k := range kinds {
		if r.Chance(1, 2) {
			enabled = append(enabled, k)
		}
	}
	if len(enabled) == 0 {
		enabled = []string{kinds[r.Intn(len(kinds))]}
	}
	sector := r.Pick2(1, 4, 16, 64, 512)
	var out []Fault
	n := r.Range(1, 3)
	var files []GenFile
	for _, f := range p.Files {
		if !strings.HasSuffix(f.Path, "/") && f.Special == "" { // never write into a named pipe: that blocks the harness itself
			files = append(files, f)
		}
	}
	if len(files) == 0 {
		return nil
	}
	for i := 0; i < n; i++ {
		k := enabled[r.Intn(len(enabled))]
		f := files[r.Intn(len(files))]
		ft := Fault{Kind: k, OnPath: f.Path}
		switch r.Intn(10) {
		case 0:
			ft.Nth = 0 // before the build starts
			ft.Target = f.Path
			ft.OnPath = ""
		case 1, 2, 3:
			ft.On, ft.Nth = "stat", 1
		case 4, 5, 6:
			ft.On, ft.Nth = "read", 1 // between stat and read: TOCTOU
		case 7, 8:
			ft.On, ft.Nth = "read", 2 // between two INCLUDEs of the same file
		default:
			ft.On, ft.Nth = "stat", r.Range(2, 3)
		}
		if f.Path == p.Root && ft.On == "stat" {
			ft.On = "read"
		}
		if (k == "eacces" || k == "eio") && ft.Nth == 0 {
			ft.On, ft.Nth, ft.OnPath, ft.Target = "read", 1, f.Path, ""
		}
		ln := len(f.Data)
		switch k {
		case "grow":
			// at whatever the builder does with the path after having looked at it (the second access)
			ft.Len = r.Pick2(1, 1, 7, 600, 5000)
			if ft.Nth != 0 {
				ft.On, ft.Nth = "any", 2
			}
		case "torn":
			ft.Off = r.Intn(ln + 1)
			if r.Chance(1, 6) {
				ft.Off = 0
			}
		case "flip":
			ft.Off = r.Intn(ln + 1)
			ft.Mask = byte(1 << r.Intn(8))
		case "filler-tail":
			ft.Off = r.Intn(ln + 1)
			ft.Mask = []byte{0x00, 0xff, 0xaa, 0x55, 0x80, 0xbf, ' ', '\n'}[r.Intn(8)]
		case "setbyte":
			ft.Off = r.Intn(ln + 1)
			ft.Mask = []byte{0, 0xff, '"', '(', ')', '\r', '\n', '{', '/', '#', '\\', 0x80}[r.Intn(12)]
		case "lost-zero", "lost-stale", "dup":
			ft.Off = (r.Intn(ln+1) / sector) * sector
			ft.Len = sector
			if k == "lost-stale" {
				ft.Data = staleVersion(f.Data, r)
			}
		case "misdirect":
			ft.Off = (r.Intn(ln+1) / sector) * sector
			ft.Len = sector
			ft.Dst = files[r.Intn(len(files))].Path
		case "replace":
			switch r.Intn(5) {
			case 0: // stale version
				ft.Data = staleVersion(f.Data, r)
			case 1: // becomes a file that includes a sibling: may create a cycle mid-build
				sib := files[r.Intn(len(files))].Path
				rel := sib
				if d := filepath.Dir(f.Path); d != "." {
					rel = strings.TrimPrefix(sib, d+"/")
				}
				ft.Data = append(append([]byte(nil), f.Data...), []byte("\nINCLUDE "+rel+"\n")...)
			case 2: // new version with a semantic error that is only found after scanning
				ft.Data = append(append([]byte(nil), f.Data...), []byte("\n499 @noSuchType_"+fmt.Sprint(r.Intn(9))+"\n")...)
			case 3: // new version with a scan-time error
				ft.Data = append(append([]byte(nil), f.Data...), []byte("\nBogusDirective x\n")...)
			default: // new version that re-declares something
				ft.Data = append(append([]byte(nil), f.Data...), []byte("\nTAG @dupTag\nTAG @dupTag\n")...)
			}
		}
		out = append(out, ft)
	}
	return out
}

// The C14 parameter alphabet: every string over these tokens up to a length bound is tried
// as the parameter of one INCLUDE (bare and quoted), in a fixed layout that has files and
// directories behind every token combination that is legal, and decoys outside the project.
var alphaTokens = []string{"a", ".", "/", "\\", "..", "d", "b.jst", "\x01", "\xff"}

func alphabetCount(maxLen int) int {
	n, p := 0, 1
	for l := 1; l <= maxLen; l++ {
		p *= len(alphaTokens)
		n += p
	}
	return n
}

func alphabetParam(index int) string {
	l, p := 1, len(alphaTokens)
	for index >= p {
		index -= p
		p *= len(alphaTokens)
		l++
	}
	var sb strings.Builder
	for i := 0; i < l; i++ {
		sb.WriteString(alphaTokens[index%len(alphaTokens)])
		index /= len(alphaTokens)
	}
	return sb.String()
}

func (e diskEngine) genAlphabet(job *Job, c *Case) *Case {
	prm := alphabetParam(job.Index)
	line := "INCLUDE " + prm
	if strings.ContainsAny(prm, "\\") || (job.Index%3 == 0 && !strings.ContainsAny(prm, "\x01")) {
		// quoted form: backslashes must be escaped inside quotes
		line = "INCLUDE \"" + strings.ReplaceAll(prm, "\\", "\\\\") + "\""
	}
	p := &Project{Kind: "light-alphabet", Root: "root.jst", Name: "alphabet:" + prm}
	file := func(n, s string) { p.Files = append(p.Files, GenFile{Path: n, Data: []byte(s)}) }
	file("root.jst", "JSIGHT 0.3\n"+line+"\nTAG @after\n")
	file("a", "TAG @fileA\n")
	file("b.jst", "TAG @fileB\n")
	file("d/a", "TAG @fileDA\n")
	file("d/b.jst", "TAG @fileDB\n")
	file("d/d/a", "TAG @fileDDA\n")
	file("ab.jst", "TAG @fileAB\n")
	file("ad/", "")
	file("da", "TAG @fileDa2\n")
	file("aa", "TAG @fileAA\n")
	file("db.jst", "TAG @fileDB2\n")
	file("..a", "TAG @dotdotA\n")
	file("a..", "TAG @aDotdot\n")
	file(".a", "TAG @dotA\n")
	file("a.", "TAG @aDot\n")
	file("...", "TAG @dots\n")
	file("d/..a", "TAG @dDotdotA\n")
	file("d/.a", "TAG @dDotA\n")
	c.Project = p
	c.Note = "alphabet"
	return c
}

func (e diskEngine) Gen(job *Job) *Case {
	r := NewRand(job.Seed)
	c := &Case{Prop: e.prop, Seed: job.Seed, Entry: "path"}
	if job.Mode == "sweep" {
		return e.genSweep(job, r, c)
	}
	if job.Mode == "alphabet" {
		return e.genAlphabet(job, c)
	}
	if job.Mode == "truncate" {
		c.Project = genTruncated(job.Index)
		c.Note = "truncate"
		return c
	}
	if job.Mode == "paths" {
		c.Project = genPathEnum(job.Index)
		c.Note = "paths"
		return c
	}
	if job.Mode == "depth" {
		sh := depthShapes[job.Index%len(depthShapes)]
		c.Project = depthProject(sh, 100000)
		c.Note = "depth:" + sh
		return c
	}
	if job.Mode == "scaling" {
		sh := scaleShapes[job.Index%len(scaleShapes)]
		c.Project = scaleProject(sh, 50)
		c.Note = "scaling:" + sh
		return c
	}
	// flavour weights per property: valid+faults, light, special, corpus
	w := map[string][4]int{"C01": {40, 20, 20, 20}, "C07": {40, 30, 5, 25}, "C14": {10, 80, 5, 5}}[e.prop]
	k := r.Intn(100)
	light := false
	switch {
	case k < w[0]:
		c.Project = genValid(r.Fork())
		if r.Chance(1, 4) {
			// a project with 2-4 rule violations of the generator's 27 defect kinds (duplicates,
			// undefined references, broken path parameters, ...): error paths are code too
			c.Project = genMultiDefect(r.Fork())
		} else if r.Chance(1, 2) {
			// one defect (or one unusual but accepted construct) on top of a valid project: nothing
			// found in an earlier phase masks it. Most genuine crashes of the pinned tree were of this kind
			c.Project = genSingleDefect(r.Fork())
		}
	case k < w[0]+w[1]:
		mode := []string{"graph", "graph", "hostile", "hostile", "hostile", "cycle"}[r.Intn(6)]
		c.Project = genLight(r.Fork(), mode)
		light = true
	case k < w[0]+w[1]+w[2]:
		if r.Chance(1, 3) {
			c.Project = genMacroGraph(r.Fork())
		} else {
			c.Project = genSpecial(r.Fork(), specialKinds[r.Intn(len(specialKinds))])
		}
	default:
		if p := corpusProject(r.Intn(1 << 20)); p != nil && len(p.Files) > 0 {
			c.Project = p
		} else {
			c.Project = genValid(r.Fork())
		}
	}
	if e.prop == "C07" && r.Chance(1, 10) {
		// a defect planted at a known line: nothing else is wrong with the project, no faults
		c.Project, c.Expect = genPlanted(r.Fork())
		if r.Chance(1, 4) {
			c.Entry = "mem"
		}
		return c
	}
	if r.Chance(1, 4) && c.Project.File(c.Project.Root) != nil {
		c.Entry = "mem"
	}
	if !strings.HasPrefix(c.Project.Kind, "special") || r.Chance(1, 4) {
		c.Faults = genFaults(r, c.Project, light)
		if job.Tier == "thorough" && r.Chance(1, 4) {
			c.Faults = append(c.Faults, genFaults(r, c.Project, light)...) // up to 6 faults
		}
	}
	if r.Chance(1, 6) && !strings.HasPrefix(c.Project.Kind, "special") && c.Project.Kind != "corpus" {
		c.Prior = r.Range(1, 2)
	}
	if r.Chance(1, 4) && c.Project.Kind != "corpus" {
		c.RootAs = r.Range(1, 6) // another spelling of the same root path (./, /./, //, /../, absolute, ../<cwd>/)
	}
	if c.Entry == "mem" && c.Project.Kind != "corpus" && r.Chance(1, 5) {
		c.RootAs = r.Range(7, 8) // a root in memory may carry any name: here the directory itself ("a/p/", "a/p/.")
	}
	if r.Chance(1, 10) {
		kw := []string{"MACRO", "PASTE", "INCLUDE", "TAG", "ENUM", "Description", "Query", "SERVER", "TYPE", "Headers"}
		c.Banned = []string{kw[r.Intn(len(kw))]}
		if r.Chance(1, 2) {
			c.Banned = append(c.Banned, kw[r.Intn(len(kw))])
		}
	}
	// C07(c): an illegal byte over the first byte of a directive keyword of a light project
	if light && e.prop == "C07" && c.Project.Kind == "light-graph" && r.Chance(1, 3) {
		c.Faults = nil
		if ex := keywordFault(c.Project, r); ex != nil {
			c.Faults, c.Expect = ex.faults, ex.expect
			c.Entry = "path" // the damaged byte is on the disk; a root handed over in memory would not see it
		}
	}
	return c
}

type kwFault struct {
	faults []Fault
	expect *Expect
}

// keywordFault picks a line of a light file that holds a directive and overwrites the first
// byte of its keyword with an illegal byte, before the build starts.
func keywordFault(p *Project, r *Rand) *kwFault {
	var cands []Expect
	for _, f := range p.Files {
		if strings.HasSuffix(f.Path, "/") || lineConvention(f.Data) == "mixed" {
			continue
		}
		off := 0
		for _, l := range strings.SplitAfter(string(f.Data), "\n") {
			t := strings.TrimLeft(l, " \t")
			if len(t) > 0 && t[0] >= 'A' && t[0] <= 'Z' {
				o := off + len(l) - len(t)
				ln, _, _ := lineCol(f.Data, o)
				cands = append(cands, Expect{File: f.Path, Off: o, Line: ln, Why: "illegal byte written over the first byte of the keyword on this line"})
			}
			off += len(l)
		}
	}
	if len(cands) == 0 {
		return nil
	}
	ex := cands[r.Intn(len(cands))]
	b := []byte{0, 0x01, 0x7f, '%', '^', '~', '`'}[r.Intn(7)]
	return &kwFault{faults: []Fault{{Kind: "setbyte", Nth: 0, Target: ex.File, Off: ex.Off, Mask: b}}, expect: &ex}
}

// genSweep: the systematic complement - for a seed project, one single fault at every point:
// torn at every offset, flip of every byte (3 masks), enoent/eisdir/swap at every access.
func (e diskEngine) genSweep(job *Job, r *Rand, c *Case) *Case {
	// seed projects are derived from a small pool so that the sweep covers each of them densely
	pool := 8
	if job.Tier == "thorough" {
		pool = 50
	}
	pr := NewRand(RunSeed(0xC01, uint64(job.Index%pool)))
	var p *Project
	switch job.Index % 3 {
	case 0:
		p = genValid(pr.Fork())
	case 1:
		p = genLight(pr.Fork(), "graph")
	default:
		if cp := corpusProject(pr.Intn(1 << 20)); cp != nil && len(cp.Files) > 0 {
			p = cp
		} else {
			p = genValid(pr.Fork())
		}
	}
	c.Project = p
	point := job.Index / pool
	var files []GenFile
	for _, f := range p.Files {
		if !strings.HasSuffix(f.Path, "/") {
			files = append(files, f)
		}
	}
	if len(files) == 0 {
		return c
	}
	f := files[point%len(files)]
	q := point / len(files)
	ln := len(f.Data) + 1
	switch q % 6 {
	case 0:
		c.Faults = []Fault{{Kind: "torn", Nth: 0, Target: f.Path, Off: (q / 6) % ln}}
	case 1, 2, 3:
		c.Faults = []Fault{{Kind: "flip", Nth: 0, Target: f.Path, Off: (q / 6) % ln, Mask: []byte{0x01, 0x20, 0x80}[q%3]}}
	case 4:
		k := []string{"enoent", "eisdir", "eio"}[(q/6)%3]
		c.Faults = []Fault{{Kind: k, On: []string{"stat", "read"}[(q/18)%2], OnPath: f.Path, Nth: 1 + (q/36)%2}}
	default:
		c.Faults = []Fault{{Kind: "setbyte", Nth: 0, Target: f.Path, Off: (q / 6) % ln, Mask: []byte{0, '"', '(', ')', '\n', '/', '#', '@'}[(q/6/ln)%8]}}
	}
	c.Note = "sweep"
	return c
}

func relProj(p string) string {
	c := filepath.Clean(p)
	return strings.TrimPrefix(c, projDir+"/")
}

// damagedVersion: an older, broken version of the same project (same paths): for light
// projects one file gets a line that is wrong in one of several ways (wrong context, unknown
// directive, duplicate, missing include target); for others one block is damaged.
func damagedVersion(p *Project, r *Rand) *Project {
	q := p.Clone()
	if strings.HasPrefix(p.Kind, "light") || r.Chance(1, 2) {
		var idx []int
		for i, f := range q.Files {
			if !strings.HasSuffix(f.Path, "/") {
				idx = append(idx, i)
			}
		}
		if len(idx) == 0 {
			return q
		}
		f := &q.Files[idx[r.Intn(len(idx))]]
		nl := "\n"
		if f.CRLF {
			nl = "\r\n"
		}
		line := []string{"200 any", "BogusDirective x", "TAG @dupPrior" + nl + "TAG @dupPrior", "INCLUDE nosuch-prior.jst", "  Body", "404 @noSuchTypePrior", ")"}[r.Intn(7)]
		s := string(f.Data)
		if s != "" && !strings.HasSuffix(s, "\n") {
			s += nl
		}
		f.Data = []byte(s + line + nl)
		return q
	}
	if !damageOneBlock(q, r) {
		corruptBeforeBuild(q, r)
	}
	return q
}

// execScaling: the project of the case is a scaleProject at n = 50; it is built at n and at
// 4n and the work of the two builds is compared.
func (e diskEngine) execScaling(c *Case, job *Job) *Result {
	res := &Result{}
	shape := strings.TrimPrefix(c.Note, "scaling:")
	canonicalEnv()
	simrt.SetOSHook(nil)
	var ops, alloc [2]uint64
	var class [2]string
	sizes := scaleSizes(shape)
	for i, n := range sizes {
		p := scaleProject(shape, n)
		must(Materialise(p.Files))
		simrt.ResetOps()
		a0 := totalAlloc()
		o := BuildPath(filepath.Join(projDir, p.Root))
		alloc[i] = totalAlloc() - a0
		ops[i] = simrt.Ops()
		class[i] = o.Class()
	}
	res.count("scaling-shapes", 1)
	res.count("max:scaling-ratio-x10", int(ops[1]*10/(ops[0]+1)))
	res.count("max:scaling-alloc-ratio-x10", int(alloc[1]*10/(alloc[0]+1)))
	res.NonTrivial = true
	res.Key = "scaling|" + shape
	res.Steps = int(ops[0] + ops[1])
	if class[0] != "catalog" || class[1] != "catalog" {
		res.Verdict = "skip"
		res.count("skipped:scaling-project-rejected", 1)
		return res
	}
	floor := uint64(100) // below that the fixed cost of a build dominates
	if strings.HasSuffix(shape, "-doubling") {
		floor = 20
	}
	if ops[0] > floor && ops[1] > 8*ops[0] {
		group := shape
		if shape == "types-chain" || shape == "allof-chain" {
			group = shape + " (user-type-chain)"
		}
		if strings.HasSuffix(shape, "-doubling") {
			group = shape + " (expansion-doubling)"
		}
		if shape == "types-diamond-doubling" {
			group = shape + " (type-diamond)"
		}
		if shape == "types-and-bodies" || shape == "enums-and-types" {
			group = shape + " (types-times-schemas)"
		}
		if e.prop == "C01" {
			res.violate("work-not-proportional", "work-not-proportional: "+group,
				fmt.Sprintf("shape %q: %d seam operations at n=%d, %d at n=%d: 4x the input needs %.1fx the work (linear = 4x, quadratic = 16x); the build does not run in time proportional to the input", shape, ops[0], sizes[0], ops[1], sizes[1], float64(ops[1])/float64(ops[0])))
		}
	}
	// second measure: bytes allocated. Work done inside the standard library (joining, splitting
	// and copying ever longer prefixes) passes no seam, but it allocates. Same bound: 4x the input,
	// at most 8x the bytes; only looked at when the smaller build allocates enough (>= 256 KB) for
	// the fixed cost of a build not to matter, and only if the first measure was quiet.
	if res.Verdict != "violation" && e.prop == "C01" && alloc[0] >= 256<<10 && alloc[1] > 8*alloc[0] {
		res.violate("work-not-proportional", "work-not-proportional: "+shape+" (allocation)",
			fmt.Sprintf("shape %q: %d KB allocated at n=%d, %d KB at n=%d: 4x the input allocates %.1fx the bytes (linear = 4x, quadratic = 16x) while the seam operations grow %.1fx; the build does not run in time proportional to the input", shape, alloc[0]>>10, sizes[0], alloc[1]>>10, sizes[1], float64(alloc[1])/float64(alloc[0]), float64(ops[1])/float64(ops[0]+1)))
	}
	res.Detail, _ = json.Marshal(map[string]any{"shape": shape, "ops_n": ops[0], "ops_4n": ops[1], "alloc_n": alloc[0], "alloc_4n": alloc[1]})
	return res
}

func (e diskEngine) Exec(c *Case, job *Job) *Result {
	if strings.HasPrefix(c.Note, "scaling:") {
		return e.execScaling(c, job)
	}
	res := &Result{}
	canonicalEnv()
	if c.Prior > 0 {
		// Prior history: damaged older versions of the same project are built first, at the same
		// paths, in one pool session (same-task LIFO reuse, what sync.Pool does on one P). Whatever
		// they leave behind - in a pool, in a package-level table keyed by path - is there for the
		// build under observation, whose access log and outcome the oracles then judge as usual.
		simrt.SetOSHook(nil)
		simrt.PoolSimBegin(simrt.PoolConfig{Policy: simrt.PoolIsolating}, c.Seed)
		pr := NewRand(c.Seed ^ 0x9e37)
		for i := 0; i < c.Prior; i++ {
			q := damagedVersion(c.Project, pr)
			must(Materialise(q.Files))
			buildCase(&Case{Project: q, Entry: c.Entry})
		}
		res.count("prior-builds-of-damaged-versions", c.Prior)
	}
	must(Materialise(c.Project.Files))
	disk := NewDisk(c.Faults)
	simrt.SetOSHook(disk)
	disk.StartFaults()
	taskSeed = c.Seed
	simrt.ResetOps()
	o := buildCase(c)
	ops := simrt.Ops()
	simrt.SetOSHook(nil)
	log := disk.log
	// kit.NewJapi may look at the root before it reads it (a root that is not a regular file is
	// refused without being opened, fix F19). The oracles reason about "the read of the root":
	// a stat of the root directly in front of that read is folded into it; a stat that is not
	// followed by the read stands for a root that could not be read.
	if c.Entry == "path" && len(log) > 0 && log[0].Op == "stat" && cleanPath(log[0].Path) == cleanPath(relCwd(spellRoot(c.Project.Root, c.RootAs))) {
		if len(log) > 1 && log[1].Op == "read" && cleanPath(log[1].Path) == cleanPath(log[0].Path) {
			log = log[1:]
			res.count("probe:root-stat-before-read", 1)
		} else {
			first := log[0]
			first.Op, first.Result = "read", "refused after stat ("+first.Result+")"
			log = append([]Access{first}, log[1:]...)
			res.count("probe:root-refused-after-stat", 1)
		}
	}
	served := 0
	for _, a := range log {
		served += a.Len
	}
	if c.Entry == "mem" {
		if f := c.Project.File(c.Project.Root); f != nil {
			served += len(f.Data)
		}
	}
	// work per byte served, in 1/100 (reported as the maximum over the batch by the driver)
	res.count("max:ops-per-100-bytes-served", int(ops*100/uint64(served+200)))
	res.count("max:ops", int(ops))

	// ---------- bookkeeping ----------
	res.count("config:"+c.Project.Kind, 1)
	res.count("entry:"+c.Entry, 1)
	nfired := 0
	var firedKinds []string
	for _, k := range sortedKeys(disk.fired) {
		res.count("fault-fired:"+k, disk.fired[k])
		if k != "noop" {
			nfired += disk.fired[k]
			firedKinds = append(firedKinds, fmt.Sprintf("%s*%d", k, disk.fired[k]))
		}
	}
	res.count("faults-configured", len(c.Faults))
	if nfired == 0 {
		res.count("runs-without-fired-fault", 1)
	}
	res.count("outcome:"+o.Class(), 1)
	res.Steps = len(log)
	var shape []string
	for _, a := range log {
		r := a.Result
		if strings.HasPrefix(r, "err:") {
			r = "err"
		}
		shape = append(shape, a.Op[:1]+":"+relProj(a.Path)+":"+r)
	}
	shapeStr := strings.Join(shape, " ")

	// ---------- oracles ----------
	rootPath := relCwd(spellRoot(c.Project.Root, c.RootAs))
	var rootData []byte
	if f := c.Project.File(c.Project.Root); f != nil {
		rootData = f.Data
	}
	garbage := false
	for _, f := range c.Faults {
		if isByteGarbage(f.Kind) {
			garbage = true
		}
	}
	modelAsserted := (strings.HasPrefix(c.Project.Kind, "light") || c.Project.Kind == "generated-valid" || c.Project.Kind == "generated-late-defect" || c.Project.Kind == "multi-defect" || c.Project.Kind == "single-defect" || c.Project.Kind == "macro-graph" || strings.HasPrefix(c.Project.Kind, "special")) && !garbage && !strings.HasSuffix(c.Project.Kind, "-fifo") // the include model knows files, directories and holes, not pipes
	for _, f := range c.Faults {
		if f.Kind == "flip" || f.Kind == "setbyte" || f.Kind == "lost-zero" || f.Kind == "filler-tail" {
			if !strings.HasPrefix(c.Project.Kind, "light") {
				modelAsserted = false // a damaged multi-line body may hide or reveal an INCLUDE-looking line
			}
		}
	}
	mr := runIncludeModel(log, c.Entry, rootPath, rootData)

	v01c, v01s, v01m := oracleC01(o, disk)
	if v01c == "" && ops > 400000 && ops > uint64(150*(served+200)) {
		// "within time proportional to the input", measured without a clock: the number of seam
		// operations (lock, once, map range, file access) the build executed, per byte served. Over
		// > 10^6 runs on the unchanged tree the maximum is ~10 per byte and < 60 000 in total.
		v01c, v01s = "work-not-proportional", "work-not-proportional"
		v01m = fmt.Sprintf("the build executed %d seam operations for %d bytes of input (%d per byte; the unchanged tree stays below 10 per byte): work is not proportional to the input", ops, served, ops/uint64(served+1))
	}
	if c.Expect != nil && c.Project.Kind == "planted-defect" && o.OK {
		res.count("c07:planted-project-accepted(nothing-to-check)", 1)
	}
	v14c, v14s, v14m := oracleC14(c, o, log, mr, modelAsserted, res, rootPath)
	v07c, v07s, v07m := oracleC07(c, o, log, mr, modelAsserted && !mr.abstained, rootPath, rootData, res)

	report := func(prop, class, sig, msg string) {
		if class == "" {
			return
		}
		if prop == e.prop {
			res.violate(class, sig, msg)
		} else {
			res.Foreign = append(res.Foreign, prop+":"+class)
		}
	}
	report("C01", v01c, v01s, v01m)
	report("C14", v14c, v14s, v14m)
	report("C07", v07c, v07s, v07m)

	// ---------- distinctness / non-triviality ----------
	switch e.prop {
	case "C01":
		res.NonTrivial = nfired > 0 || strings.HasPrefix(c.Project.Kind, "special") || c.Project.Kind == "macro-graph" || c.Project.Kind == "truncated-rich-document" || strings.HasPrefix(c.Project.Kind, "light-hostile") || strings.HasPrefix(c.Project.Kind, "light-cycle") || strings.HasSuffix(c.Project.Kind, "-ctx")
		res.Key = fmt.Sprintf("%s|%s|%016x|%s", c.Project.Kind, strings.Join(firedKinds, ","), fnv64(shapeStr), o.Class())
	case "C14":
		res.NonTrivial = mr.includes > 0
		res.Key = fmt.Sprintf("%016x|%s", fnv64(shapeStr), o.Class())
	case "C07":
		res.NonTrivial = o.Err != nil
		depth := 0
		msg := ""
		if o.Err != nil {
			depth = strings.Count(o.Err.Full[len(o.Err.Msg):], "\n")
			msg = msgClass(o.Err.Msg)
		}
		res.Key = fmt.Sprintf("%s|%d|%s|%016x", msg, depth, strings.Join(firedKinds, ","), fnv64(shapeStr))
	}
	res.count("probe:model-includes-walked", mr.includes)
	if mr.sawCycle {
		res.count("probe:include-cycle-seen", 1)
	}
	if mr.repeats > 0 {
		res.count("probe:same-file-included-again", mr.repeats)
	}
	if mr.abstained {
		res.count("model-abstained", 1)
	}
	if !modelAsserted {
		res.count("model-not-asserted(corpus-or-byte-garbage)", 1)
	}
	if mr.depthMax >= 3 {
		res.count("probe:include-depth>=3", 1)
	}
	if o.Err != nil && strings.Count(o.Err.Full[len(o.Err.Msg):], "\n") >= 3 {
		res.count("probe:error-through->=2-include-levels", 1)
	}
	versions := map[string]map[uint64]bool{}
	for _, a := range log {
		if a.Op == "read" && a.Result == "ok" {
			k := filepath.Clean(a.Path)
			if versions[k] == nil {
				versions[k] = map[uint64]bool{}
			}
			versions[k][a.Hash] = true
		}
	}
	for _, k := range sortedSetKeys(versions) {
		if len(versions[k]) > 1 {
			res.count("probe:same-path-served-in-two-versions", 1)
			break
		}
	}
	if c.Prior > 0 {
		canonicalEnv()
	}
	if job.Sample || res.Verdict == "violation" {
		var al []string
		for _, a := range log {
			al = append(al, a.String())
		}
		if len(al) > 60 {
			al = append(al[:60], fmt.Sprintf("... %d more", len(log)-60))
		}
		res.Detail, _ = json.Marshal(map[string]any{"access_log": al, "fired": disk.fired, "outcome": o.Text(), "panic_at": o.PanicAt,
			"model": map[string]any{"includes_walked": mr.includes, "abstained": mr.abstained, "must_fail": mr.mustFail, "fail_file": mr.failFile, "fail_line": mr.failLine, "why": mr.failWhy, "saw_cycle": mr.sawCycle}})
	}
	return res
}

func sortedSetKeys(m map[string]map[uint64]bool) []string {
	var ks []string
	for k := range m {
		ks = append(ks, k)
	}
	sortStrings(ks)
	return ks
}

// msgClass strips quoted fragments and numbers so that messages group into classes.
func msgClass(m string) string {
	var sb strings.Builder
	inq := false
	for i := 0; i < len(m) && sb.Len() < 60; i++ {
		c := m[i]
		if c == '"' || c == '`' {
			inq = !inq
			continue
		}
		if inq || (c >= '0' && c <= '9') {
			continue
		}
		sb.WriteByte(c)
	}
	return sb.String()
}

// ---------- C01 ----------

func oracleC01(o *Outcome, d *Disk) (class, sig, msg string) {
	switch {
	case o.Deadlock != "":
		return "deadlock", "deadlock", "no task of the build (the build itself and the goroutines it may have started) can make progress - each waits for a lock, a Once, a WaitGroup or a channel that nobody will release: it never returns\n  " + o.Deadlock
	case o.StepLim:
		return "step-limit", "more than 5000 file accesses", fmt.Sprintf("the build performed more than %d file-system accesses: it does not terminate in steps proportional to the input", maxAccesses)
	case o.Panic != "":
		return "panic", o.PanicAt + ": " + trunc(o.Panic, 100), fmt.Sprintf("the build panicked: %s\n  at %s", o.Panic, o.PanicAt)
	case o.BadValue != "":
		return "bad-value", o.BadValue, "the build returned neither a catalog nor a structured error: " + o.BadValue
	}
	return "", "", ""
}

// ---------- C14 ----------

func oracleC14(c *Case, o *Outcome, log []Access, mr *modelResult, asserted bool, res *Result, rootPath string) (class, sig, msg string) {
	if c, m := safetyCheck(log, rootPath); c != "" {
		return c, c, m
	}
	if !asserted {
		return "", "", ""
	}
	if mr.violation != "" {
		return mr.class, mr.class, mr.violation
	}
	if o.Panic != "" || o.StepLim || o.BadValue != "" {
		return "", "", "" // C01's business
	}
	if mr.mustFail && o.OK {
		why := mr.failWhy
		if why == "" {
			why = "the build stopped consulting the file system before all INCLUDE directives of the served files were resolved"
		}
		return "accepted-what-must-fail", "accepted-what-must-fail", fmt.Sprintf("the build returned a catalog although %s (at %s:%d)", why, mr.failFile, mr.failLine)
	}
	if mr.sawCycle && o.OK {
		return "cycle-accepted", "cycle-accepted", "the served include graph contains a cycle but the build returned a catalog"
	}
	// the macro recursion check reuses the message of the include recursion error; it is located at
	// a PASTE or MACRO keyword. Any OTHER line that is blamed for "file dependency recursion" while
	// no served file includes itself is a false recursion error
	q := ""
	if o.Err != nil {
		q = strings.TrimLeft(o.Err.Quote, " \t")
		// what stands AT the error position says more than the quoted line (in a file of mixed line
		// endings the quote may span several lines)
		if o.Err.Index >= 0 && o.Err.Index < len(o.Err.content) {
			at := string(o.Err.content[o.Err.Index:])
			if strings.HasPrefix(at, "PASTE") || strings.HasPrefix(at, "MACRO") || strings.HasPrefix(at, "INCLUDE") {
				q = at
			}
		}
	}
	if o.Err != nil && strings.Contains(o.Err.Msg, "recursion is detected") && (strings.HasPrefix(q, "INCLUDE") || (asserted && !strings.HasPrefix(q, "PASTE") && !strings.HasPrefix(q, "MACRO"))) && !mr.sawCycle && !mr.pathCycle && !mr.abstained {
		return "false-recursion", "false-recursion", fmt.Sprintf("recursion error reported at %s:%d but no file of the served include graph includes itself", o.Err.File, o.Err.Line)
	}
	if mr.failFile != "" && o.Err != nil && !mr.abstained {
		// missing / directory / unreadable / refused target: the error is located at the INCLUDE
		if m := locatedAtInclude(c, o, log, mr, res); m != "" {
			return "error-not-at-include", "error-not-at-include", m
		}
	}
	return "", "", ""
}

// locatedAtInclude: the model predicts that the build cannot get past the INCLUDE at
// failFile:failLine. The reported error must be there - unless the build legitimately stopped
// EARLIER for an unrelated reason. That is decided differentially, not by reading messages:
// the same served files are built again with that one INCLUDE line blanked out; if the very
// same error (message, file, index) comes back, it never depended on the INCLUDE.
func locatedAtInclude(c *Case, o *Outcome, log []Access, mr *modelResult, res *Result) string {
	e := o.Err
	if filepath.Clean(e.File) == filepath.Clean(mr.failFile) && (mr.failLine == 0 || e.Line == mr.failLine) {
		res.count("probe:error-located-at-include", 1)
		return ""
	}
	// served versions, one per path, else abstain
	served := map[string][]byte{}
	for _, a := range log {
		if a.Op == "read" && a.Result == "ok" {
			k := filepath.Clean(a.Path)
			if old, ok := served[k]; ok && string(old) != string(a.data) {
				res.count("c14:located-check-abstained(several-versions)", 1)
				return ""
			}
			served[k] = a.data
		}
	}
	if mr.failInst == nil {
		return ""
	}
	q := c.Project.Clone()
	inProject := map[string]bool{}
	for i := range q.Files {
		k := filepath.Join(projDir, q.Files[i].Path)
		inProject[k] = true
		if d, ok := served[k]; ok {
			q.Files[i].Data = append([]byte(nil), d...)
		}
	}
	// files that only exist because a fault created them were served too
	var extra []string
	for k := range served {
		if !inProject[k] && strings.HasPrefix(k, projDir+"/") {
			extra = append(extra, k)
		}
	}
	sortStrings(extra)
	for _, k := range extra {
		q.Files = append(q.Files, GenFile{Path: strings.TrimPrefix(k, projDir+"/"), Data: append([]byte(nil), served[k]...)})
	}
	inc := relProj(mr.failInst.Path)
	f := q.File(inc)
	if f == nil {
		return ""
	}
	data := append([]byte(nil), mr.failInst.Data...)
	for i := mr.failOff; i < len(data) && data[i] != '\n' && data[i] != '\r'; i++ {
		if i == mr.failOff {
			data[i] = '#'
		} else {
			data[i] = ' '
		}
	}
	f.Data = data
	c2 := &Case{Prop: c.Prop, Seed: c.Seed, Project: q, Entry: c.Entry, RootAs: c.RootAs, Banned: c.Banned}
	if err := Materialise(q.Files); err != nil {
		// the served versions cannot be laid out as one tree (a fault made a path a file at one
		// moment and a directory at another): no differential for this run
		must(Materialise(c.Project.Files))
		res.count("c14:located-check-abstained(served-tree-not-materialisable)", 1)
		return ""
	}
	o2 := buildCase(c2)
	must(Materialise(c.Project.Files))
	if o2.Err != nil && o2.Err.Msg == e.Msg && filepath.Clean(o2.Err.File) == filepath.Clean(e.File) && o2.Err.Index == e.Index {
		res.count("probe:earlier-independent-error-confirmed", 1)
		return ""
	}
	return fmt.Sprintf("%s: the error must be located at %s:%d, but it is reported at %s:%d (%s); with that INCLUDE line blanked out the same files give %s", mr.failWhy, mr.failFile, mr.failLine, e.File, e.Line, trunc(e.Msg, 100), trunc(o2.Text(), 160))
}

// ---------- C07 ----------

func lineText(data []byte, idx int) (string, bool) {
	conv := lineConvention(data)
	if conv == "mixed" {
		return "", false
	}
	if idx >= len(data) {
		idx = len(data) - 1
	}
	if idx < 0 {
		return "", true
	}
	isNL := func(b byte) bool {
		if conv == "cr" {
			return b == '\r'
		}
		return b == '\n'
	}
	start := idx
	for start > 0 && !isNL(data[start-1]) {
		start--
	}
	if isNL(data[idx]) && idx > 0 {
		// the index is on the line terminator itself: that terminator ends the line in question
		start = idx
		for start > 0 && !isNL(data[start-1]) {
			start--
		}
	}
	end := idx
	for end < len(data) && !isNL(data[end]) {
		end++
	}
	if conv == "crlf" && end > start && data[end-1] == '\r' {
		end--
	}
	return string(data[start:end]), true
}

// quoteCoversIndex: "" if some occurrence of the quote in data, extended over the blanks on its
// left and up to the next line break on its right, contains idx.
func quoteCoversIndex(data []byte, idx int, quote string) string {
	q := strings.TrimLeft(quote, " \t\r\n")
	cut := false
	if strings.HasSuffix(q, "...") {
		q, cut = strings.TrimSuffix(q, "..."), true
	}
	if idx >= len(data) {
		return "" // end of file: either the last line or the 'unknown' empty quote
	}
	if q == "" {
		// an empty quote: acceptable only if the position is on a blank stretch or a line break
		b := data[idx]
		if b == ' ' || b == '\t' || b == '\r' || b == '\n' || cut {
			return ""
		}
		return "the quote is empty but the position holds text"
	}
	text := string(data)
	for from := 0; ; {
		i := strings.Index(text[from:], q)
		if i < 0 {
			break
		}
		s := from + i
		e := s + len(q)
		lo := s
		for lo > 0 && (data[lo-1] == ' ' || data[lo-1] == '\t') {
			lo--
		}
		hi := e
		if cut {
			// the quote was cut: the line goes on, and where it ends is exactly what is ambiguous in a
			// file with mixed line endings - anything after the beginning of the quoted text is accepted
			hi = len(data)
		}
		// the position may also be the line break that ends the quoted text
		for hi < len(data) && (data[hi] == '\r' || data[hi] == '\n') && hi-e < 2 {
			hi++
		}
		if idx >= lo && idx <= hi {
			return ""
		}
		from = s + 1
	}
	return "no occurrence of the quoted text in the file contains the error position"
}

func oracleC07(c *Case, o *Outcome, log []Access, mr *modelResult, treeAsserted bool, rootPath string, rootData []byte, res *Result) (class, sig, msg string) {
	if o.Err == nil {
		return "", "", ""
	}
	e := o.Err
	if e.nilFile {
		// an error without a file: only legitimate when no file could be read at all
		if c.Entry == "path" && len(log) == 1 && log[0].Result != "ok" {
			res.count("c07:root-unreadable-error-without-file", 1)
			return "", "", ""
		}
		return "no-file", "no-file", "the error names no file although project files were served"
	}
	// (a) the file was served, content is a served version
	var versions [][]byte
	if c.Entry == "mem" && filepath.Clean(e.File) == filepath.Clean(rootPath) {
		versions = append(versions, rootData)
	}
	for _, a := range log {
		if a.Op == "read" && a.Result == "ok" && filepath.Clean(a.Path) == filepath.Clean(e.File) {
			versions = append(versions, a.data)
		}
	}
	if len(versions) == 0 && c.Entry == "path" && len(log) >= 1 && log[0].Result != "ok" && filepath.Clean(e.File) == filepath.Clean(rootPath) {
		// the root file could not be read: the error names it, there is no content to point into
		if e.Index != 0 || len(e.content) != 0 {
			return "index-out-of-file", "index-out-of-file", fmt.Sprintf("the root file %q could not be read, yet the error points to index %d of %d bytes of content", e.File, e.Index, len(e.content))
		}
		res.count("c07:root-unreadable-error-names-root", 1)
		return "", "", ""
	}
	if len(versions) == 0 {
		return "file-not-served", "file-not-served", fmt.Sprintf("the error names file %q, which the disk never served in this build", e.File)
	}
	matched := false
	for _, v := range versions {
		if string(v) == string(e.content) {
			matched = true
		}
	}
	if !matched {
		return "content-not-served", "content-not-served", fmt.Sprintf("the content attached to the error's file %q equals none of the %d versions the disk served for that path", e.File, len(versions))
	}
	data := e.content
	if e.Index > len(data) {
		return "index-out-of-file", "index-out-of-file", fmt.Sprintf("error index %d is beyond the end of %q (%d bytes)", e.Index, e.File, len(data))
	}
	wantLine, wantCol, ok := lineCol(data, e.Index)
	if !ok {
		res.count("c07:line-column-skipped(mixed-line-endings)", 1)
		// Which bytes end a line is ambiguous in a file that mixes conventions, so line, column and
		// the exact extent of the quote are not asserted. One thing is not ambiguous: the quoted
		// text has to be text of the file that CONTAINS the error position (modulo the blanks
		// trimmed on its left and a "..." cut).
		if m := quoteCoversIndex(data, e.Index, e.Quote); m != "" {
			return "wrong-quote", "wrong-quote", fmt.Sprintf("error at index %d of %q (mixed line endings) quotes %q: %s", e.Index, e.File, trunc(e.Quote, 120), m)
		}
	} else if e.Index < len(data) {
		if e.Line != wantLine || e.Column != wantCol {
			return "wrong-line-column", "wrong-line-column", fmt.Sprintf("error at index %d of %q reports line %d column %d; that index is on line %d column %d", e.Index, e.File, e.Line, e.Column, wantLine, wantCol)
		}
		res.count("c07:line-column-checked", 1)
	} else {
		// the end of the content is a position too: the column after the last byte of the last line
		// (or column 1 of the line a final line break opens); the end of an empty content is the
		// beginning of line 1 (0:0 was tolerated here until finding F25)
		if !(e.Line == wantLine && e.Column == wantCol) {
			return "wrong-line-column", "wrong-line-column: end-of-file", fmt.Sprintf("error at end of %q (index %d = length) reports line %d column %d; that position is %d:%d", e.File, e.Index, e.Line, e.Column, wantLine, wantCol)
		}
		res.count("c07:line-column-checked(end-of-file)", 1)
	}
	if ok {
		raw, _ := lineText(data, e.Index)
		want := strings.TrimLeft(raw, " \t\r\n")
		q := strings.TrimLeft(e.Quote, " \t\r\n")
		good := q == want
		if !good && len(raw) > 100 && strings.HasSuffix(e.Quote, "...") {
			// Long lines may be cut and marked with "..." (the property does not say where): what is
			// left, modulo leading blanks, must be the beginning of the line.
			cut := strings.TrimLeft(strings.TrimSuffix(e.Quote, "..."), " \t\r\n")
			good = strings.HasPrefix(want, cut)
		}
		if !good && e.Index >= len(data) && e.Quote == "" {
			good = true
		}
		if !good {
			return "wrong-quote", "wrong-quote", fmt.Sprintf("error at %s:%d quotes %q; the text of that line is %q", e.File, e.Line, trunc(e.Quote, 120), trunc(want, 120))
		}
		res.count("c07:quote-checked", 1)
	}
	// (c) located in advance
	if c.Expect != nil {
		ex := c.Expect
		if ex.MsgHas != "" && !strings.Contains(e.Msg, ex.MsgHas) {
			return "fault-located-elsewhere", "planted-defect-not-reported", fmt.Sprintf("%s: expected an error saying %q at %s line %d, got: %s (at %s line %d)", ex.Why, ex.MsgHas, ex.File, ex.Line, trunc(e.Msg, 100), e.File, e.Line)
		}
		if filepath.Clean(e.File) != filepath.Join(projDir, ex.File) || (ex.Off >= 0 && e.Index != ex.Off) || (ex.Line != 0 && e.Line != ex.Line) {
			return "fault-located-elsewhere", "fault-located-elsewhere", fmt.Sprintf("%s: expected the error at %s index %d (line %d), reported at %s index %d (line %d): %s", ex.Why, ex.File, ex.Off, ex.Line, e.File, e.Index, e.Line, trunc(e.Msg, 100))
		}
		res.count("c07:fault-located-error-checked", 1)
	}
	if mr.failFile != "" && treeAsserted {
		if m := locatedAtInclude(c, o, log, mr, res); m != "" {
			return "error-not-at-include", "error-not-at-include", m
		}
		res.count("c07:include-located-error-checked", 1)
	}
	// (d) the error moves with the text: the same project with every INCLUDE line replaced by the
	// bytes that were served for it (one file, built from memory) must report the same error at
	// the byte that came from the same place. This knows where a defect IS independently of the
	// builder's bookkeeping of files and offsets.
	if treeAsserted && mr.violation == "" && !mr.mustFail && !mr.sawCycle && !mr.pathCycle && len(mr.instances) > 1 && c.Expect == nil && c.Prior == 0 {
		if cl, m := inlinedLocation(c, o, mr, res); cl != "" {
			return cl, cl, m
		}
	}
	// (b) trace
	if !treeAsserted || mr.violation != "" {
		res.count("c07:trace-not-asserted", 1)
		return "", "", ""
	}
	trace := e.Full[len(e.Msg):]
	var got []string
	if trace != "" {
		got = strings.Split(strings.TrimPrefix(trace, "\n"), "\n")
	}
	var cands []*Instance
	for _, in := range mr.instances {
		if filepath.Clean(in.Path) == filepath.Clean(e.File) && string(in.Data) == string(e.content) {
			cands = append(cands, in)
		}
	}
	if len(cands) == 0 {
		res.count("c07:trace-no-candidate-instance", 1)
		return "", "", ""
	}
	var wants []string
	for _, in := range cands {
		var w []string
		if in.Parent != nil {
			w = append(w, fmt.Sprintf("%s:%d", in.Path, e.Line))
			for p := in; p.Parent != nil; p = p.Parent {
				w = append(w, fmt.Sprintf("%s:%d", p.Parent.Path, p.AtLine))
			}
		}
		if traceEqual(got, w) {
			if len(cands) == 1 {
				res.count("c07:trace-checked-unique-instance", 1)
			} else {
				res.count("c07:trace-checked-ambiguous-instance", 1)
			}
			if len(w) > 0 {
				res.count("c07:trace-nonempty-checked", 1)
			}
			return "", "", ""
		}
		wants = append(wants, "["+strings.Join(w, " <- ")+"]")
	}
	sig = "wrong-trace: other"
	// K1 (the tracer cached per including file) can only concern errors raised AFTER scanning,
	// through a directive. An INCLUDE that fails (missing target, directory, refused parameter,
	// recursion - what the include model predicts) is reported while scanning, from the live
	// scanner stack: a stale line in ITS trace is not K1
	scanTime := (mr.failFile != "" && filepath.Clean(e.File) == filepath.Clean(mr.failFile) && (mr.failLine == 0 || e.Line == mr.failLine)) ||
		// (the macro recursion check reuses the text of the include recursion error: only an error
		// that quotes an INCLUDE line is the scan-time one)
		(strings.Contains(e.Msg, "recursion is detected") && strings.HasPrefix(strings.TrimLeft(e.Quote, " \t"), "INCLUDE")) ||
		strings.Contains(e.Msg, "incorrect parameter (Filename)")
	for _, in := range cands {
		if !scanTime && staleIncludeLine(got, in, e.Line, mr) {
			sig = "wrong-trace: stale-include-line"
		}
	}
	if scanTime {
		sig = "wrong-trace: of a failing INCLUDE"
	}
	return "wrong-trace", sig, fmt.Sprintf("the include trace of the error is [%s]; the include chains of the file instance(s) that were served these bytes are %s", strings.Join(got, " <- "), strings.Join(wants, " or "))
}

type inlineSeg struct {
	start, n int // in the inlined text
	inst     *Instance
	off      int // offset of the segment inside inst.Data
}

// inlineInstances renders the dynamic include tree as one text and records where every byte
// came from. children: instances in read order (depth-first pre-order), as the model built them.
func inlineInstances(root *Instance, all []*Instance) (string, []inlineSeg) {
	var sb strings.Builder
	var segs []inlineSeg
	kids := map[*Instance][]*Instance{}
	for _, in := range all {
		if in.Parent != nil {
			kids[in.Parent] = append(kids[in.Parent], in)
		}
	}
	var emit func(in *Instance)
	emit = func(in *Instance) {
		incs := findIncludes(in.Data)
		ki := 0
		pos := 0
		for _, il := range incs {
			if ki >= len(kids[in]) || il.status != "ok" {
				continue
			}
			// the INCLUDE line: from its line start to (and including) its line break
			ls := il.off
			for ls > 0 && in.Data[ls-1] != '\n' && in.Data[ls-1] != '\r' {
				ls--
			}
			le := il.off
			if il.end > le {
				le = il.end
			}
			for le < len(in.Data) && in.Data[le] != '\n' && in.Data[le] != '\r' {
				le++
			}
			brk := ""
			if le < len(in.Data) {
				brk = string(in.Data[le])
				le++
				if brk == "\r" && le < len(in.Data) && in.Data[le] == '\n' {
					brk += "\n"
					le++
				}
			} else {
				brk = "\n"
			}
			if ls > pos {
				segs = append(segs, inlineSeg{sb.Len(), ls - pos, in, pos})
				sb.Write(in.Data[pos:ls])
			}
			child := kids[in][ki]
			ki++
			emit(child)
			if n := len(child.Data); n > 0 && child.Data[n-1] != '\n' && child.Data[n-1] != '\r' {
				sb.WriteString(brk)
			}
			pos = le
		}
		if pos < len(in.Data) {
			segs = append(segs, inlineSeg{sb.Len(), len(in.Data) - pos, in, pos})
			sb.Write(in.Data[pos:])
		}
	}
	emit(root)
	return sb.String(), segs
}

func inlinedLocation(c *Case, o *Outcome, mr *modelResult, res *Result) (class, msg string) {
	e := o.Err
	if e.Index >= len(e.content) || strings.TrimSpace(string(e.content[e.Index+1:])) == "" {
		// an error at the END of a file (at the end position, or on its last non-blank byte) ("unexpected end of file", an unclosed construct): the
		// single-file version has no end of file at that place - whatever follows the INCLUDE in the
		// including file continues the construct, and the same message is legitimately reported elsewhere
		res.count("c07:inlined-comparison-inconclusive(error-at-end-of-file)", 1)
		return "", ""
	}
	text, segs := inlineInstances(mr.instances[0], mr.instances)
	o2 := BuildMem(mr.instances[0].Path, []byte(text), c.Banned...)
	if o2.Err == nil || o2.Err.Msg != e.Msg {
		res.count("c07:inlined-comparison-inconclusive(other-outcome)", 1)
		return "", ""
	}
	idx := o2.Err.Index
	segAt := func(i int) *inlineSeg {
		for k := range segs {
			if i >= segs[k].start && i < segs[k].start+segs[k].n {
				return &segs[k]
			}
		}
		return nil
	}
	// The end of a file means something in the language: it ends whatever the last directive of
	// the file was still waiting for (a response code without a body at the end of an included
	// file is complete there; followed directly by the next line of the including file it takes
	// that line for its body). An error of the single-file version on the first token after the
	// end of an included file may therefore be a defect the project does not have - and the project's own
	// error of the same text a different, later one. Nothing to compare.
	if cur := segAt(idx); cur != nil {
		for j := idx - 1; j >= 0; j-- {
			if ch := text[j]; ch == ' ' || ch == '\t' || ch == '\n' || ch == '\r' {
				continue
			}
			if sj := segAt(j); sj != nil && sj.inst != cur.inst {
				// (only where a file ENDS: what is pending when an INCLUDE opens a file stays pending
				// inside it, exactly as in the single-file version)
				entering := false
				for a := cur.inst.Parent; a != nil; a = a.Parent {
					if a == sj.inst {
						entering = true
					}
				}
				if !entering {
					res.count("c07:inlined-comparison-inconclusive(first-token-after-the-end-of-a-file)", 1)
					return "", ""
				}
			}
			break
		}
	}
	for _, sg := range segs {
		if idx >= sg.start && idx < sg.start+sg.n {
			wantFile, wantOff := sg.inst.Path, sg.off+(idx-sg.start)
			if filepath.Clean(e.File) != filepath.Clean(wantFile) || e.Index != wantOff {
				return "location-differs-from-inlined-document", fmt.Sprintf("the same error (%s) is reported at %s index %d; in the single-file version of the project (every INCLUDE replaced by the bytes served for it) it is reported at the byte that came from %s index %d", trunc(e.Msg, 80), e.File, e.Index, wantFile, wantOff)
			}
			res.count("c07:location-equals-inlined-document", 1)
			return "", ""
		}
	}
	res.count("c07:inlined-comparison-inconclusive(index-on-a-seam)", 1)
	return "", ""
}

// staleIncludeLine: is the printed trace the TRUE chain of another, earlier inclusion made
// from a file with the same path as the failing instance's includer? (Mechanism of the
// recorded finding K1: the trace handed to directives is cached per including file NAME, so a
// later inclusion from that file - another line, or the same file reached through other
// ancestors - gets the chain that was current when the cache entry was made.)
func staleIncludeLine(got []string, in *Instance, errLine int, mr *modelResult) bool {
	if in.Parent == nil {
		return false
	}
	for _, x := range mr.instances {
		if x == in || x.Parent == nil || x.ReadSeq >= in.ReadSeq || filepath.Clean(x.Parent.Path) != filepath.Clean(in.Parent.Path) {
			continue
		}
		w := []string{fmt.Sprintf("%s:%d", in.Path, errLine)}
		for p := x; p.Parent != nil; p = p.Parent {
			w = append(w, fmt.Sprintf("%s:%d", p.Parent.Path, p.AtLine))
		}
		if traceEqual(got, w) {
			return true
		}
	}
	return false
}

// traceEqual compares printed trace lines with expected ones; an expected line number 0 is a wildcard.
func traceEqual(got, want []string) bool {
	if len(got) != len(want) {
		return false
	}
	for i := range got {
		if got[i] == want[i] {
			continue
		}
		if strings.HasSuffix(want[i], ":0") {
			j := strings.LastIndexByte(got[i], ':')
			if j >= 0 && got[i][:j] == strings.TrimSuffix(want[i], ":0") {
				continue
			}
		}
		return false
	}
	return true
}

func (e diskEngine) Shrinks(c *Case) []*Case {
	var out []*Case
	for i := range c.Faults {
		d := cloneCase(c)
		d.Faults = append(d.Faults[:i], d.Faults[i+1:]...)
		if c.Expect != nil {
			continue
		}
		out = append(out, d)
	}
	if c.Entry == "mem" {
		d := cloneCase(c)
		d.Entry = "path"
		out = append(out, d)
	}
	if c.Prior > 0 {
		d := cloneCase(c)
		d.Prior = c.Prior - 1
		out = append(out, d)
	}
	if c.Expect == nil {
		for _, p := range shrinkProjects(c.Project) {
			d := cloneCase(c)
			d.Project = p
			out = append(out, d)
		}
	}
	for i, f := range c.Faults {
		if f.Off > 0 && c.Expect == nil {
			d := cloneCase(c)
			d.Faults[i].Off = f.Off / 2
			out = append(out, d)
		}
	}
	return out
}
