package main

import (
	"strings"
)

// Generic project shrinking used by every engine's minimiser: drop whole files that are not
// the root, drop top-level blocks (a block starts at a line that does not begin with white
// space), drop single lines.

func splitBlocks(text string) []string {
	var blocks []string
	var cur strings.Builder
	for _, l := range strings.SplitAfter(text, "\n") {
		if l == "" {
			continue
		}
		starts := l[0] != ' ' && l[0] != '\t' && l[0] != '\r' && l[0] != '\n' && l[0] != '(' && l[0] != ')' && l[0] != '{' && l[0] != '}' && l[0] != '[' && l[0] != ']'
		if starts && cur.Len() > 0 {
			blocks = append(blocks, cur.String())
			cur.Reset()
		}
		cur.WriteString(l)
	}
	if cur.Len() > 0 {
		blocks = append(blocks, cur.String())
	}
	return blocks
}

func shrinkProjects(p *Project) []*Project {
	var out []*Project
	// drop a non-root file
	for i, f := range p.Files {
		if f.Path == p.Root {
			continue
		}
		q := p.Clone()
		q.Files = append(q.Files[:i], q.Files[i+1:]...)
		out = append(out, q)
	}
	// drop a block
	for i, f := range p.Files {
		bl := splitBlocks(string(f.Data))
		if len(bl) < 2 {
			continue
		}
		start := 0
		if f.Path == p.Root {
			start = 1
		}
		for b := len(bl) - 1; b >= start; b-- {
			q := p.Clone()
			q.Files[i].Data = []byte(strings.Join(append(append([]string{}, bl[:b]...), bl[b+1:]...), ""))
			out = append(out, q)
		}
	}
	// drop a line
	for i, f := range p.Files {
		ll := strings.SplitAfter(string(f.Data), "\n")
		if len(ll) > 60 {
			continue
		}
		start := 0
		if f.Path == p.Root {
			start = 1
		}
		for b := len(ll) - 1; b >= start; b-- {
			if ll[b] == "" {
				continue
			}
			q := p.Clone()
			q.Files[i].Data = []byte(strings.Join(append(append([]string{}, ll[:b]...), ll[b+1:]...), ""))
			out = append(out, q)
		}
	}
	return out
}

func cloneCase(c *Case) *Case {
	d := *c
	if c.Project != nil {
		d.Project = c.Project.Clone()
	}
	d.Faults = append([]Fault(nil), c.Faults...)
	d.PriorJobs = append([]Job(nil), c.PriorJobs...)
	d.History = append([]Step(nil), c.History...)
	d.Reps = append([]Rep(nil), c.Reps...)
	if c.Conc != nil {
		cc := *c.Conc
		cc.Tasks = append([]TaskProg(nil), c.Conc.Tasks...)
		cc.Projects = nil
		for _, p := range c.Conc.Projects {
			cc.Projects = append(cc.Projects, p.Clone())
		}
		d.Conc = &cc
	}
	return &d
}
