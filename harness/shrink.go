package main

import (
	"strings"
)

// Generic project shrinking used by every engine's minimiser: drop whole files that are not
// the root, drop top-level blocks (a block starts at a line that does not begin with white
// space), drop single lines.

func splitBlocks(text string) []string {
	var blocks []string
	var cur strings.Builder
	for _, l := range strings.SplitAfter(text, "\n") {
		if l == "" {
			continue
		}
		starts := l[0] != ' ' && l[0] != '\t' && l[0] != '\r' && l[0] != '\n' && l[0] != '(' && l[0] != ')' && l[0] != '{' && l[0] != '}' && l[0] != '[' && l[0] != ']'
		if starts && cur.Len() > 0 {
			blocks = append(blocks, cur.String())
			cur.Reset()
		}
		cur.WriteString(l)
	}
	if cur.Len() > 0 {
		blocks = append(blocks, cur.String())
	}
	return blocks
}

// shrinkBudget bounds the memory the candidates of one round may take (every candidate is a full
// copy of the project): a large project gets a few candidates that drop many blocks each, and
// finer ones in later rounds, when it has become smaller (the scaling and depth shapes have
// tens of thousands of blocks and megabytes of text).
const shrinkBudget = 256 << 20

// dropRanges: the ranges [a, b) of start..n to try dropping - single items when they are few,
// otherwise at most max contiguous chunks, last first.
func dropRanges(start, n, max int) [][2]int {
	var out [][2]int
	if n <= start {
		return nil
	}
	if max < 2 {
		max = 2
	}
	size := 1
	if n-start > max {
		size = (n - start + max - 1) / max
	}
	for b := n; b > start; b -= size {
		a := b - size
		if a < start {
			a = start
		}
		out = append(out, [2]int{a, b})
	}
	return out
}

func shrinkProjects(p *Project) []*Project {
	var out []*Project
	size := 1
	for _, f := range p.Files {
		size += len(f.Data)
	}
	max := shrinkBudget / size / 3
	if max > 64 {
		max = 64
	}
	// drop non-root files
	rootAt := -1
	for i, f := range p.Files {
		if f.Path == p.Root {
			rootAt = i
		}
	}
	for _, rg := range dropRanges(0, len(p.Files), max) {
		if rootAt >= rg[0] && rootAt < rg[1] {
			if rg[1]-rg[0] == 1 {
				continue
			}
			// keep the root, drop the others of the chunk
			q := p.Clone()
			var keep []GenFile
			for i, f := range q.Files {
				if i < rg[0] || i >= rg[1] || i == rootAt {
					keep = append(keep, f)
				}
			}
			q.Files = keep
			out = append(out, q)
			continue
		}
		q := p.Clone()
		q.Files = append(q.Files[:rg[0]], q.Files[rg[1]:]...)
		out = append(out, q)
	}
	// drop blocks
	for i, f := range p.Files {
		bl := splitBlocks(string(f.Data))
		if len(bl) < 2 {
			continue
		}
		start := 0
		if f.Path == p.Root {
			start = 1
		}
		for _, rg := range dropRanges(start, len(bl), max) {
			q := p.Clone()
			q.Files[i].Data = []byte(strings.Join(append(append([]string{}, bl[:rg[0]]...), bl[rg[1]:]...), ""))
			out = append(out, q)
		}
	}
	// drop a line
	for i, f := range p.Files {
		ll := strings.SplitAfter(string(f.Data), "\n")
		if len(ll) > 60 || len(ll) > max {
			continue
		}
		start := 0
		if f.Path == p.Root {
			start = 1
		}
		for b := len(ll) - 1; b >= start; b-- {
			if ll[b] == "" {
				continue
			}
			q := p.Clone()
			q.Files[i].Data = []byte(strings.Join(append(append([]string{}, ll[:b]...), ll[b+1:]...), ""))
			out = append(out, q)
		}
	}
	return out
}

func cloneCase(c *Case) *Case {
	d := *c
	if c.Project != nil {
		d.Project = c.Project.Clone()
	}
	d.Faults = append([]Fault(nil), c.Faults...)
	d.PriorJobs = append([]Job(nil), c.PriorJobs...)
	d.History = append([]Step(nil), c.History...)
	d.Reps = append([]Rep(nil), c.Reps...)
	if c.Conc != nil {
		cc := *c.Conc
		cc.Tasks = append([]TaskProg(nil), c.Conc.Tasks...)
		cc.Projects = nil
		for _, p := range c.Conc.Projects {
			cc.Projects = append(cc.Projects, p.Clone())
		}
		d.Conc = &cc
	}
	return &d
}
