package main

import (
	"strings"
	"flag"
	"fmt"
	"os"
	"path/filepath"
)

// gentest: development aid. Generates n projects and reports the ones the builder rejects.
func gentest(args []string) {
	fl := flag.NewFlagSet("gentest", flag.ExitOnError)
	n := fl.Int("n", 1000, "")
	seed := fl.Uint64("seed", 1, "")
	show := fl.Int("show", 3, "")
	dump := fl.Bool("dump", false, "")
	grep := fl.String("grep", "", "count single-defect projects that contain every one of these |-separated substrings")
	fl.Parse(args)
	if *grep != "" {
		hits := 0
		outcomes := map[string]int{}
		dir, _ := os.MkdirTemp("", "gentest")
		defer os.RemoveAll(dir)
		os.Chdir(dir)
		for i := 0; i < *n; i++ {
			p := genSingleDefect(NewRand(RunSeed(*seed, uint64(i))))
			all := ""
			for _, f := range p.Files {
				all += string(f.Data)
			}
			ok := true
			for _, w := range strings.Split(*grep, "|") {
				if !strings.Contains(all, w) {
					ok = false
				}
			}
			if ok {
				if err := Materialise(p.Files); err != nil {
					panic(err)
				}
				o := BuildPath(filepath.Join(projDir, p.Root))
				outcomes[o.Class()+" "+trunc(o.Text(), 70)]++
				hits++
				if hits <= *show {
					if len(all) > 400 {
						all = all[len(all)-400:]
					}
					fmt.Println(all)
				}
			}
		}
		fmt.Printf("single-defect projects=%d matching=%d outcomes=%v\n", *n, hits, outcomes)
		return
	}
	dir, _ := os.MkdirTemp("", "gentest")
	defer os.RemoveAll(dir)
	os.Chdir(dir)
	bad := 0
	feats := map[string]int{}
	for i := 0; i < *n; i++ {
		p := genValid(NewRand(RunSeed(*seed, uint64(i))))
		if err := Materialise(p.Files); err != nil {
			panic(err)
		}
		o := BuildPath(filepath.Join(projDir, p.Root))
		for _, f := range p.Features {
			feats[f]++
		}
		if *dump && i < *show {
			for _, f := range p.Files {
				fmt.Printf("=== %s\n%s", f.Path, f.Data)
			}
		}
		if !o.OK {
			bad++
			if bad <= *show {
				fmt.Printf("---- run %d rejected: %s at %s\n", i, o.Text(), o.PanicAt)
				for _, f := range p.Files {
					fmt.Printf("=== %s\n%s", f.Path, f.Data)
				}
			}
			continue
		}
		if _, err := o.japi.ToJson(); err != nil {
			fmt.Printf("run %d ToJson: %v\n", i, err)
		}
	}
	fmt.Printf("generated=%d rejected=%d features=%v\n", *n, bad, feats)
}
