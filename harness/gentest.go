package main

import (
	"flag"
	"fmt"
	"os"
	"path/filepath"
)

// gentest: development aid. Generates n projects and reports the ones the builder rejects.
func gentest(args []string) {
	fl := flag.NewFlagSet("gentest", flag.ExitOnError)
	n := fl.Int("n", 1000, "")
	seed := fl.Uint64("seed", 1, "")
	show := fl.Int("show", 3, "")
	dump := fl.Bool("dump", false, "")
	fl.Parse(args)
	dir, _ := os.MkdirTemp("", "gentest")
	defer os.RemoveAll(dir)
	os.Chdir(dir)
	bad := 0
	feats := map[string]int{}
	for i := 0; i < *n; i++ {
		p := genValid(NewRand(RunSeed(*seed, uint64(i))))
		if err := Materialise(p.Files); err != nil {
			panic(err)
		}
		o := BuildPath(filepath.Join(projDir, p.Root))
		for _, f := range p.Features {
			feats[f]++
		}
		if *dump && i < *show {
			for _, f := range p.Files {
				fmt.Printf("=== %s\n%s", f.Path, f.Data)
			}
		}
		if !o.OK {
			bad++
			if bad <= *show {
				fmt.Printf("---- run %d rejected: %s at %s\n", i, o.Text(), o.PanicAt)
				for _, f := range p.Files {
					fmt.Printf("=== %s\n%s", f.Path, f.Data)
				}
			}
			continue
		}
		if _, err := o.japi.ToJson(); err != nil {
			fmt.Printf("run %d ToJson: %v\n", i, err)
		}
	}
	fmt.Printf("generated=%d rejected=%d features=%v\n", *n, bad, feats)
}
