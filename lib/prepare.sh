# sourced by /verif/check. Creates an instrumented scratch copy of /repo's working tree and of
# jsight-schema-core in $S (which must exist and be empty) and builds the harness against it.
export GOFLAGS=-mod=mod GOPROXY=off GOSUMDB=off GOTOOLCHAIN=local
export GONOSUMCHECK=1 GONOSUMDB='*' GOFLAGS="-mod=mod"
VERIF=${VERIF:-/verif}
REPO=${REPO:-/repo}

die2() { echo "check: $*" >&2; exit 2; }

build_tools() {
	if [ ! -x "$VERIF/bin/instrument" ] || [ "$VERIF/instrument/main.go" -nt "$VERIF/bin/instrument" ]; then
		(cd "$VERIF/instrument" && go build -o "$VERIF/bin/instrument" .) || die2 "cannot build the instrumenter"
	fi
}

prepare_copy() { # $1 = scratch dir
	S=$1
	build_tools
	SCHEMA=$(cd "$REPO" && go list -m -f '{{.Dir}}' github.com/jsightapi/jsight-schema-core 2>/dev/null)
	[ -d "$SCHEMA" ] || die2 "cannot locate jsight-schema-core in the module cache"
	mkdir -p "$S/api" "$S/schema"
	rsync -a --exclude .git "$REPO"/ "$S/api/" || die2 "copy of /repo failed"
	rsync -a --chmod=u+w "$SCHEMA"/ "$S/schema/" || die2 "copy of schema-core failed"
	cat >> "$S/api/go.mod" <<EOT

require simrt v0.0.0
replace simrt => $VERIF/simrt
replace github.com/jsightapi/jsight-schema-core => $S/schema
EOT
	cat >> "$S/schema/go.mod" <<EOT

require simrt v0.0.0
replace simrt => $VERIF/simrt
EOT
	(cd "$S/api" && "$VERIF/bin/instrument" -sites "$S/sites.json" "$S/api" ./... github.com/jsightapi/jsight-schema-core/...) > "$S/instrument.log" 2>&1 \
		|| { cat "$S/instrument.log" >&2; die2 "instrumenter refused the tree (see message above)"; }
}

build_harness() { # $1 = scratch dir, $2 = extra go build flags (e.g. -race), $3 = output name
	S=$1
	cat > "$S/harness.mod" <<EOT
module harness

go 1.18

require (
	github.com/jsightapi/jsight-api-core v0.0.0
	github.com/jsightapi/jsight-schema-core v0.2.0
	simrt v0.0.0
)

replace github.com/jsightapi/jsight-api-core => $S/api
replace github.com/jsightapi/jsight-schema-core => $S/schema
replace simrt => $VERIF/simrt
EOT
	cp "$REPO/go.sum" "$S/harness.sum"
	(cd "$VERIF/harness" && go build -trimpath $2 -modfile="$S/harness.mod" -o "$S/$3" .) > "$S/build.log" 2>&1 \
		|| { cat "$S/build.log" >&2; die2 "harness does not build against the instrumented tree"; }
}
