#!/bin/bash
# Sensitivity self-test: every patch in /verif/mutants and /verif/seeded is applied to a SCRATCH
# COPY of /repo (never to /repo itself) and the quick check of the property it breaks must
# report a violation (exit 1). Usage: lib/sensitivity.sh [name-filter]
# SENS_PROP="C06 C07": only the patches registered for these properties.
# Table: <patch file relative to /verif> <R = apply reversed | F = forward> <property> [budget of the quick run, when the default is too short for this one]
VERIF=$(cd "$(dirname "$0")/.." && pwd)
T=$(mktemp -d /tmp/verif-sens.XXXXXX)
trap 'rm -rf "$T"' EXIT
filter=${1:-}
pass=0; fail=0; failed=""
while read -r patch dir prop budget; do
	[ -z "$patch" ] && continue
	case "$patch" in \#*) continue;; esac
	if [ -n "$filter" ] && [[ "$patch" != *"$filter"* ]]; then continue; fi
	if [ -n "${SENS_PROP:-}" ] && [[ " $SENS_PROP " != *" $prop "* ]]; then continue; fi
	rm -rf "$T/repo"; mkdir -p "$T/repo" "$T/ev" "$T/rp"
	rsync -a --exclude .git /repo/ "$T/repo/"
	(cd "$T/repo" && git init -q . && git add -A >/dev/null 2>&1 && git -c user.email=x -c user.name=x commit -qm base >/dev/null 2>&1)
	flag=""; [ "$dir" = R ] && flag="-R"
	if ! (cd "$T/repo" && git apply $flag "$VERIF/$patch") 2> "$T/apply.err"; then
		echo "MUTANT $patch: patch does not apply: $(head -1 "$T/apply.err")"; fail=$((fail+1)); failed="$failed $patch"; continue
	fi
	# the module cache lookup (go list -m) needs go.mod/go.sum of the copy: present
	out=$(REPO="$T/repo" VERIF_EVIDENCE_DIR="$T/ev" VERIF_REPLAY_DIR="$T/rp" VERIF_BUDGET=${budget:-${SENS_BUDGET:-40s}} "$VERIF/check" "$prop" quick 2>&1)
	rc=$?
	if [ $rc -eq 1 ] && echo "$out" | grep -q "^VIOLATION property=$prop"; then
		echo "MUTANT $patch [$prop]: detected ($(echo "$out" | grep '^violation class' | cut -c1-160))"; pass=$((pass+1))
	else
		echo "MUTANT $patch [$prop]: NOT detected (exit $rc): $(echo "$out" | tail -2 | tr '\n' ' ' | cut -c1-300)"; fail=$((fail+1)); failed="$failed $patch"
	fi
done < "$VERIF/mutants/TABLE"
echo "sensitivity: detected=$pass missed=$fail"
[ $fail -eq 0 ]
