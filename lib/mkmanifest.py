#!/usr/bin/env python3
# Regenerates /verif/MANIFEST.json from the table below (the single place where claims are edited).
import json, os, sys
V = os.path.dirname(os.path.dirname(os.path.abspath(__file__)))

NA = {
 "C02": "pure function of the document bytes (model round-trip over generated inputs); no schedule, fault, clock or history occurs in the statement, so deterministic simulation has nothing to decide",
 "C03": "the 'fault' is a defect written into the document; the verdict is a pure function of the input bytes, no I/O fault, schedule or history is involved",
 "C04": "structural validation of the output for every accepted input; pure function of the input (the stateful part of serialisation is claimed as C16)",
 "C05": "invariant of the serialised catalog as a function of the input; pure",
 "C08": "metamorphic relation over rewrites of the input text; pure function of the bytes",
 "C09": "the catalog is a pure function of the file tree; the statement has no fault, ordering or timing in it (INCLUDE I/O itself is simulated for C01/C07/C14)",
 "C10": "metamorphic relation over macro abstraction of the input; pure",
 "C11": "exhaustive enumeration of directive sequences against a reference automaton is bounded model checking, not seeded simulation; pure function of the input",
 "C12": "scanner output is a pure function of the byte string",
 "C13": "exhaustive breadth-first exploration of the keyword DFA is model checking; pure function of the bytes",
 "C15": "metamorphic relation over permutations of input blocks; pure",
 "C17": "pure function of the built catalog; no schedule, fault or history (repeatability of the exporter under call histories is claimed as C16)",
 "C19": "static option x input; pure function, nothing for a scheduler or fault injector to decide",
}

CHECKS = {
 "C16": dict(
   technique="deterministic simulation: seeded call histories on one built catalog under a simulated environment (map-order seam, simulated sync.Pool, ambient seam), checked call by call against a stateless reference model (first call on a freshly built instance)",
   text="Seeded search over (project, call history, environment) triples; every call of every history is compared with the reference model. Finds state carried between accessor calls (lazy compilation, generators advanced per call, errors swallowed by sync.Once, shared schema objects mutated). Exploration, not proof: a clean batch is evidence.",
   note="Trusted: the instrumenter (checked by ./check selftest: the repository's suite passes on the instrumented copy), simrt, the reference model's assumption that a fresh build under the canonical environment is the specification. Single task; concurrent histories are C18.",
   ref="4.5"),
 "C01": dict(
   technique="deterministic simulation with fault injection: builds on a simulated disk (real directory tree, content and timing decided by a seeded fault plan executed inside the mediated os calls) in crash-attributed worker processes; oracle: catalog or structured error, no panic, no process death, bounded file accesses, no hang; plus a single-fault-at-every-point sweep",
   text="Seeded search over (project, fault plan) pairs: generated, light include graphs (hostile parameters, cycles), 29 special configurations, corpus; 0-3 faults out of 15 kinds (missing, directory, symlink loop, torn, flipped/zeroed/stale/duplicated/misdirected sectors, swap after stat, change between two INCLUDEs, cycle created mid-build, EACCES/EIO). Each build runs in a worker whose death (stack overflow, fatal error) is attributed to the run and confirmed in a fresh process. Claimed for the fault/configuration slice of C01, not for all byte strings.",
   note="Trusted: instrumenter (selftest), sim-disk hook, worker/driver attribution. EACCES/EIO are stubbed syscall results. Exponential macro expansion is not generated. Hang = exceeds the 20 s per-run watchdog twice (typical run: < 5 ms).",
   ref="4.1"),
 "C07": dict(
   technique="deterministic simulation with fault injection: every build on the simulated disk that ends in an error is checked against what the disk actually served (file, version, index, recomputed line/column/quote) and against the dynamic include tree reconstructed from the access log by an independent reference model (existential over file instances; unique when a fault served two versions of one path)",
   text="Seeded search over (project, fault plan) pairs whose builds fail. The history a fixture cannot pin - the same path served in different versions to two INCLUDEs, a file swapped between stat and read, a byte damaged on disk at a known keyword - is exactly what the simulator controls, so the truthful location and trace are known independently of the implementation.",
   note="Trusted: instrumenter, sim-disk access log, the reference model in model.go (line-anchored INCLUDE recognition; asserted only where that is sound: light projects and generated projects without byte-copying faults). One known finding (stale INCLUDE line cached per including file name) is classified by mechanism; any other wrong trace is reported.",
   ref="4.3"),
 "C14": dict(
   technique="deterministic simulation with fault injection: complete mediation of every file-system call (os, io/ioutil, path/filepath) by the instrumenter; the recorded access log is checked for refinement against a reference model of INCLUDE resolution written from the property text, plus a model-independent safety clause per access (inside the project directory, no '..', no decoy, only stat/read)",
   text="Seeded search over include-heavy projects with hostile parameters (path alphabet of ~45 entries: '..', '.', absolute, backslash, quoted, dot-files, empty, long, non-ASCII), decoys outside the project, repeats/diamonds/static cycles, and faults that change the graph mid-build (target vanishes or becomes a directory between stat and read, file replaced between two INCLUDEs, cycle created after the first read). Because the instrumenter mediates by type, a file-system call that a change ADDS is seen too.",
   note="Trusted: instrumenter completeness for os / io/ioutil / path/filepath entry points (others - syscall, os.File methods on a descriptor obtained elsewhere - are not mediated), reference model. The model abstains where the property is silent (second parameter, annotation, empty name).",
   ref="4.2"),
 "C18": dict(
   technique="deterministic simulation under the race detector: 2-4 tasks are real goroutines of which exactly one is runnable, a seeded scheduler decides at every sync / pool / file-access site who runs next (uniform, sticky, PCT, k-preemption strategies); hand-offs use mmap'd mailboxes and the raw futex syscall, which ThreadSanitizer does not see, so the detector observes exactly the synchronisation the code performs itself; sync.Pool is simulated (isolating / adversarial / random reuse); results are compared with sequential references; deadlocks are detected from the simulated lock/once tables",
   text="Seeded search over (projects, task programs, scenario independent/shared/mixed/cold-start, schedule, pool policy). One seed is one schedule: a violation is replayed from its recorded decision log, minimised (fewer tasks, fewer operations, fewer context switches) and attributed. Races that a free-running -race test sees one time in n are produced on demand and with the two stacks; wrong results caused by cross-task reuse of pooled buffers are produced deterministically by the adversarial pool policy.",
   note="Trusted: simrt scheduler (lock/once/waitgroup enabledness model), the invisibility of mmap+futex hand-offs to ThreadSanitizer (validated: an unlocked shared++ is reported, a locked one is not), instrumenter. Race detection itself is best-effort inside ThreadSanitizer; result comparison is exact. Known finding (dependency's BufferPool escape) is attributed per violation by replaying the schedule in fresh processes with only the dependency's pools isolating.",
   ref="4.6"),
 "C06": dict(
   technique="deterministic simulation: the same project observed under R seeded environments (permuted map iteration order per instrumented site, prior builds in the process, a fresh OS process, pool policy, ambient values); all observations must be byte-identical; culprit map site named by differential re-execution",
   text="Seeded search over projects (valid, multi-defect, corpus, byte-corrupted before the build) x environments. The map-order seam turns Go's per-iteration randomisation into a seeded, replayable choice, so an order dependence is found in one run and attributed to its site instead of showing up one time in n.",
   note="Trusted: instrumenter + simrt.MapKeys (canonical order + seeded permutation per site). One known finding in jsight-schema-core (site loader.AddUnnamedTypes#2) is attributed by site and does not mask other sites: a repetition explained by it is re-checked with that site canonical.",
   ref="4.4"),
}

def main():
    checks = []
    for pid in sorted(CHECKS):
        c = CHECKS[pid]
        checks.append({
            "property_id": pid,
            "quick_cmd": "./check %s quick" % pid,
            "thorough_cmd": "./check %s thorough" % pid,
            "evidence_file": "/verif/evidence/%s.json" % pid,
            "replay_cmd_template": "./check replay {path}",
            "engine": "simharness",
            "level_claimed": {"category": "exploration", "text": c["text"], "design_ref": "DESIGN.md section " + c["ref"]},
            "level_note": c["note"],
            "technique": c["technique"],
        })
    na = [{"property_id": k, "reason": v} for k, v in sorted(NA.items())]
    for pid in ["C01", "C06", "C07", "C14", "C16", "C18"]:
        if pid not in CHECKS:
            na.append({"property_id": pid, "reason": "check not yet registered in this commit (being built; DESIGN.md section 4)"})
    m = {
        "version": 1,
        "setup_cmd": "./setup.sh",
        "hooks": {
            "guard": "none: /repo carries no hooks. Seams are inserted at check time by /verif/instrument into a scratch copy of /repo's working tree (os.*, sync.*, map ranges, ambient inputs routed through /verif/simrt)",
            "enable": "./check <id> <tier> copies /repo's working tree and jsight-schema-core v0.2.0 into a mktemp directory, instruments both, builds /verif/harness against the copies (-race for C06/C16/C18) and removes the directory on exit",
            "baseline_off_cmd": "cd /repo && go test -vet=off -count=1 -timeout 25m ./...",
            "source_commits": [],
            "add_only": True,
        },
        "engines": [
            {"name": "simharness", "path": "/verif/harness", "serves_properties": sorted(CHECKS),
             "kind_free_text": "deterministic simulator: seeded scheduler invisible to the race detector (mmap mailboxes + futex), simulated sync.Pool, map-order seam, sim-disk with fault plans over mediated os calls, workload generator, reference-model oracles, worker/driver with crash attribution, delta-debugging minimiser, replay"},
            {"name": "instrument", "path": "/verif/instrument", "serves_properties": sorted(CHECKS),
             "kind_free_text": "go/types-driven source rewriter that inserts the seams into a scratch copy"},
            {"name": "simrt", "path": "/verif/simrt", "serves_properties": sorted(CHECKS),
             "kind_free_text": "runtime side of the seams"},
        ],
        "checks": checks,
        "notes": "Fixes of genuine defects found by the checks are 'fix:' commits in /repo and are listed as 'fixed' in /verif/known_findings.jsonl; their reverse patches are kept in /verif/mutants as regression mutants. See DESIGN.md.",
        "not_applicable": na,
    }
    json.dump(m, open(os.path.join(V, "MANIFEST.json"), "w"), indent=1)
    print("MANIFEST.json written:", [c["property_id"] for c in checks])

main()
