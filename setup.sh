#!/bin/sh
# Run once after a fresh restore, offline: builds the instrumenter and warms the Go build
# cache for the plain and the -race harness builds.
cd "$(dirname "$0")" || exit 2
exec ./check warm
