package simrt

import (
	"io/fs"
	"os"
)

// File-system seam. Every file-system call of the instrumented code arrives here with its
// site. The hook (installed by the harness: the sim-disk) logs the access, lets the fault
// plan mutate the real tree or substitute a synthetic error, and then the real call is made.

// OSHook is called before the real call. If it returns a non-nil error the real call is
// not performed and that error is returned to the code under test (synthetic EACCES/EIO).
// result, if non-nil, is called with the outcome of the real call.
type OSHook interface {
	Before(op, path, site string) error
	After(op, path, site string, data []byte, isDir bool, err error)
}

var osHook OSHook

func SetOSHook(h OSHook) { osHook = h }

func before(op, path, site string) error {
	w.ops++
	if Active() {
		yield(kOS, 0, siteHash(site), 0)
	}
	if osHook != nil {
		return osHook.Before(op, path, site)
	}
	return nil
}

func Stat(name string, site string) (os.FileInfo, error) {
	if err := before("stat", name, site); err != nil {
		return nil, err
	}
	fi, err := os.Stat(name)
	if osHook != nil {
		osHook.After("stat", name, site, nil, err == nil && fi.IsDir(), err)
	}
	return fi, err
}

func Lstat(name string, site string) (os.FileInfo, error) {
	if err := before("lstat", name, site); err != nil {
		return nil, err
	}
	fi, err := os.Lstat(name)
	if osHook != nil {
		osHook.After("lstat", name, site, nil, err == nil && fi.IsDir(), err)
	}
	return fi, err
}

func ReadFile(name string, site string) ([]byte, error) {
	if err := before("read", name, site); err != nil {
		return nil, err
	}
	b, err := os.ReadFile(name)
	if osHook != nil {
		osHook.After("read", name, site, b, false, err)
	}
	return b, err
}

func Open(name string, site string) (*os.File, error) {
	if err := before("open", name, site); err != nil {
		return nil, err
	}
	f, err := os.Open(name)
	if osHook != nil {
		osHook.After("open", name, site, nil, false, err)
	}
	return f, err
}

func OpenFile(name string, flag int, perm os.FileMode, site string) (*os.File, error) {
	if err := before("openfile", name, site); err != nil {
		return nil, err
	}
	f, err := os.OpenFile(name, flag, perm)
	if osHook != nil {
		osHook.After("openfile", name, site, nil, false, err)
	}
	return f, err
}

func ReadDir(name string, site string) ([]os.DirEntry, error) {
	if err := before("readdir", name, site); err != nil {
		return nil, err
	}
	d, err := os.ReadDir(name)
	if osHook != nil {
		osHook.After("readdir", name, site, nil, true, err)
	}
	return d, err
}

func Readlink(name string, site string) (string, error) {
	if err := before("readlink", name, site); err != nil {
		return "", err
	}
	s, err := os.Readlink(name)
	if osHook != nil {
		osHook.After("readlink", name, site, nil, false, err)
	}
	return s, err
}

// FSxy wrap a file-system call the seam has no dedicated wrapper for (Walk, Glob,
// EvalSymlinks, Create, WriteFile, Remove, ...): x = number of arguments (the first one is the
// path), y = number of results. The access is logged (and may be failed by the fault plan
// when the last result is an error), then the real function is called.
func fsAnnounce(op, path, site string) error {
	err := before(op, path, site)
	if osHook != nil && err == nil {
		osHook.After(op, path, site, nil, false, nil)
	}
	return err
}

func asErr[T any](err error) (T, bool) {
	var z T
	if _, ok := any(&z).(*error); ok && err != nil {
		*(any(&z).(*error)) = err
		return z, true
	}
	return z, false
}

func FS11[T any](op, site, path string, f func(string) T) T {
	if z, ok := asErr[T](fsAnnounce(op, path, site)); ok {
		return z
	}
	return f(path)
}
func FS12[T, U any](op, site, path string, f func(string) (T, U)) (T, U) {
	if z, ok := asErr[U](fsAnnounce(op, path, site)); ok {
		var t T
		return t, z
	}
	return f(path)
}
func FS21[A, T any](op, site, path string, a A, f func(string, A) T) T {
	if z, ok := asErr[T](fsAnnounce(op, path, site)); ok {
		return z
	}
	return f(path, a)
}
func FS22[A, T, U any](op, site, path string, a A, f func(string, A) (T, U)) (T, U) {
	if z, ok := asErr[U](fsAnnounce(op, path, site)); ok {
		var t T
		return t, z
	}
	return f(path, a)
}
func FS31[A, B, T any](op, site, path string, a A, b B, f func(string, A, B) T) T {
	if z, ok := asErr[T](fsAnnounce(op, path, site)); ok {
		return z
	}
	return f(path, a, b)
}
func FS32[A, B, T, U any](op, site, path string, a A, b B, f func(string, A, B) (T, U)) (T, U) {
	if z, ok := asErr[U](fsAnnounce(op, path, site)); ok {
		var t T
		return t, z
	}
	return f(path, a, b)
}

var _ fs.FileInfo
