package simrt

import (
	"fmt"
	"reflect"
	"sort"
	"sync/atomic"
)

// Map iteration order seam. Every `for k, v := range m` over a map in the instrumented code
// iterates over MapKeys(m, site): keys snapshotted, put into a canonical order, and - when a
// map order is installed - permuted. The permutation is a pure function of
// (order seed, site, number of keys), so it needs no shared mutable state, is the same on
// replay, and can be restricted to a subset of sites (minimisation names the culprit site).

type mapOrder struct {
	seed  uint64
	sites map[uint32]bool // nil: all sites
	mode  int             // 0 canonical, 1 permuted, 2 reversed
}

var curMapOrder atomic.Value // *mapOrder

// Map-site visit counters (sites that saw >= 2 keys), for reach probes and culprit analysis.
// A fixed array touched only from //go:norace code: builds run as tasks of the scheduler, and
// code under test may start tasks of its own.
const mapVisitCap = 1024

var (
	mapVisitsOn   bool
	mapVisitSites [mapVisitCap]uint32
	mapVisitN     int
)

//go:norace
func CountMapVisits(on bool) {
	mapVisitsOn = on
	if on {
		mapVisitN = 0
	}
}

//go:norace
func noteMapVisit(h uint32) {
	if !mapVisitsOn {
		return
	}
	for i := 0; i < mapVisitN; i++ {
		if mapVisitSites[i] == h {
			return
		}
	}
	if mapVisitN < mapVisitCap {
		mapVisitSites[mapVisitN] = h
		mapVisitN++
	}
}

// MapSitesVisited returns the names of the sites that iterated over >= 2 keys since CountMapVisits(true).
//go:norace
func MapSitesVisited() []string {
	out := make([]string, 0, mapVisitN)
	for i := 0; i < mapVisitN; i++ {
		out = append(out, SiteName(mapVisitSites[i]))
	}
	sort.Strings(out)
	return out
}

// SetMapOrder installs a permutation. mode 0 = canonical (sorted) order, 1 = PRNG
// permutation from seed, 2 = reversed canonical order. only == nil permutes every site.
func SetMapOrder(mode int, seed uint64, only []string) {
	mo := &mapOrder{seed: seed, mode: mode}
	if only != nil {
		mo.sites = map[uint32]bool{}
		for _, s := range only {
			mo.sites[siteHash(s)] = true
		}
	}
	curMapOrder.Store(mo)
}

// ClearMapOrder goes back to pass-through: Go's own (randomised) order is not reproduced;
// the canonical order is used.
func ClearMapOrder() { curMapOrder.Store((*mapOrder)(nil)) }

func MapKeys[K comparable, V any](m map[K]V, site string) []K {
	w.ops += uint64(len(m)) + 1
	keys := make([]K, 0, len(m))
	for k := range m {
		keys = append(keys, k)
	}
	if len(keys) < 2 {
		return keys
	}
	sortKeys(keys)
	h := siteHash(site)
	noteMapVisit(h)
	mo, _ := curMapOrder.Load().(*mapOrder)
	if mo == nil || mo.mode == 0 {
		return keys
	}
	if mo.sites != nil && !mo.sites[h] {
		return keys
	}
	n := len(keys)
	if mo.mode == 2 {
		for i, j := 0, n-1; i < j; i, j = i+1, j-1 {
			keys[i], keys[j] = keys[j], keys[i]
		}
		return keys
	}
	s := mo.seed ^ uint64(h)<<20 ^ uint64(n)
	for i := n - 1; i > 0; i-- {
		j := int(splitmix(&s) % uint64(i+1))
		keys[i], keys[j] = keys[j], keys[i]
	}
	return keys
}

func sortKeys[K comparable](keys []K) {
	var zero K
	switch reflect.TypeOf(zero).Kind() {
	case reflect.String:
		sort.Slice(keys, func(i, j int) bool { return reflect.ValueOf(keys[i]).String() < reflect.ValueOf(keys[j]).String() })
	case reflect.Int, reflect.Int8, reflect.Int16, reflect.Int32, reflect.Int64:
		sort.Slice(keys, func(i, j int) bool { return reflect.ValueOf(keys[i]).Int() < reflect.ValueOf(keys[j]).Int() })
	case reflect.Uint, reflect.Uint8, reflect.Uint16, reflect.Uint32, reflect.Uint64, reflect.Uintptr:
		sort.Slice(keys, func(i, j int) bool { return reflect.ValueOf(keys[i]).Uint() < reflect.ValueOf(keys[j]).Uint() })
	case reflect.Ptr, reflect.UnsafePointer, reflect.Chan:
		// Keys that are addresses have no order that is stable across processes. They are put in
		// ascending address order: arbitrary, but fixed within a repetition, and the permuted
		// repetitions iterate in a different order - which is all the C06 oracle needs. (A replay in
		// another process may start from another base order; it still compares two different orders.)
		// Better than raw addresses where possible: order pointers by the printed CONTENT they point
		// to (addresses inside that text blanked), ties by address. That order is the same in every
		// process for keys with distinct content, so a violation replays in a fresh process.
		type pk struct {
			text string
			addr uintptr
		}
		ks := make([]pk, len(keys))
		for i := range keys {
			v := reflect.ValueOf(keys[i])
			ks[i].addr = v.Pointer()
			if v.Kind() == reflect.Ptr && !v.IsNil() && v.Elem().CanInterface() {
				ks[i].text = blankAddresses(fmt.Sprintf("%+v", v.Elem().Interface()))
			}
		}
		idx := make([]int, len(keys))
		for i := range idx {
			idx[i] = i
		}
		sort.Slice(idx, func(a, b int) bool {
			x, y := ks[idx[a]], ks[idx[b]]
			if x.text != y.text {
				return x.text < y.text
			}
			return x.addr < y.addr
		})
		out := make([]K, len(keys))
		for i, j := range idx {
			out[i] = keys[j]
		}
		copy(keys, out)
	default:
		sort.Slice(keys, func(i, j int) bool { return fmt.Sprintf("%#v", keys[i]) < fmt.Sprintf("%#v", keys[j]) })
	}
}

// blankAddresses replaces every 0x... run by a fixed token.
func blankAddresses(s string) string {
	b := make([]byte, 0, len(s))
	for i := 0; i < len(s); i++ {
		if s[i] == '0' && i+1 < len(s) && s[i+1] == 'x' {
			j := i + 2
			for j < len(s) && ((s[j] >= '0' && s[j] <= '9') || (s[j] >= 'a' && s[j] <= 'f')) {
				j++
			}
			if j > i+2 {
				b = append(b, "PTR"...)
				i = j - 1
				continue
			}
		}
		b = append(b, s[i])
	}
	return string(b)
}
