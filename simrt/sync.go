package simrt

import (
	"sync"
	"unsafe"
)

type locker interface {
	Lock()
	Unlock()
}
type rlocker interface {
	RLock()
	RUnlock()
}

func iptr(x any) uint64 {
	type iface struct{ t, d unsafe.Pointer }
	return uint64(uintptr((*iface)(unsafe.Pointer(&x)).d))
}

func Lock(m locker, site string) {
	w.ops++
	if Active() {
		yield(kLock, iptr(m), siteHash(site), 0)
	}
	m.Lock()
}

func Unlock(m locker, site string) {
	m.Unlock()
	if Active() {
		yield(kUnlock, iptr(m), siteHash(site), 0)
	}
}

func RLock(m rlocker, site string) {
	w.ops++
	if Active() {
		yield(kRLock, iptr(m), siteHash(site), 0)
	}
	m.RLock()
}

func RUnlock(m rlocker, site string) {
	m.RUnlock()
	if Active() {
		yield(kRUnlock, iptr(m), siteHash(site), 0)
	}
}

// TryLock variants are not used by the code under test; the instrumenter refuses them.

func onceEnter(addr uint64) {
	s := onceSlotFor(addr, true)
	s.owner = int32(w.cur) + 1
}

func onceExit(addr uint64) {
	if s := onceSlotFor(addr, false); s != nil {
		s.owner = 0
	}
}

func OnceDo(o *sync.Once, f func(), site string) {
	w.ops++
	if !Active() {
		o.Do(f)
		return
	}
	addr := uint64(uintptr(unsafe.Pointer(o)))
	h := siteHash(site)
	yield(kOnce, addr, h, 0)
	o.Do(func() {
		onceEnter(addr)
		defer onceExit(addr) // sync.Once counts a panicking f as done
		f()
	})
	yield(kOnceDone, addr, h, 0)
}

func WGAdd(g *sync.WaitGroup, delta int, site string) {
	g.Add(delta)
	if Active() {
		yield(kWGAdd, uint64(uintptr(unsafe.Pointer(g))), siteHash(site), int64(delta))
	}
}

func WGDone(g *sync.WaitGroup, site string) {
	g.Done()
	if Active() {
		yield(kWGAdd, uint64(uintptr(unsafe.Pointer(g))), siteHash(site), -1)
	}
}

func WGWait(g *sync.WaitGroup, site string) {
	if Active() {
		yield(kWGWait, uint64(uintptr(unsafe.Pointer(g))), siteHash(site), 0)
	}
	g.Wait()
}

// Yield is a plain scheduling point (inserted at function entries by the instrumenter's
// optional "buggify" pass).
func Yield(site string) {
	if Active() {
		yield(kYield, 0, siteHash(site), 0)
	}
}

// ---- site names (filled by the harness from the instrumenter's site table; read-only during runs) ----

var siteNames map[uint32]string

func SetSiteNames(names []string) {
	siteNames = make(map[uint32]string, len(names))
	for _, n := range names {
		siteNames[siteHash(n)] = n
	}
}

func SiteName(h uint32) string {
	if n, ok := siteNames[h]; ok {
		return n
	}
	if h == 0 {
		return "-"
	}
	return "site#" + hex32(h)
}

func SiteHash(s string) uint32 { return siteHash(s) }

func hex32(h uint32) string {
	const d = "0123456789abcdef"
	b := make([]byte, 8)
	for i := 7; i >= 0; i-- {
		b[i] = d[h&15]
		h >>= 4
	}
	return string(b)
}

// Ops returns the number of seam operations (lock, rlock, once, map range, file access)
// executed since ResetOps: a deterministic, load-independent measure of the work a build did.
// Only meaningful for single-task runs (plain increments).
func Ops() uint64 { return w.ops }
func ResetOps()   { w.ops = 0 }

// AY ("atomic yield") is wrapped around the receiver / first argument of every sync/atomic
// operation of the instrumented code: a scheduling point immediately before the operation.
// Atomics are synchronisation operations; a check-then-act or a torn multi-word update built
// from individually atomic accesses needs a switch exactly there.
func AY[T any](site string, x T) T {
	w.ops++
	if Active() {
		yield(kYield, 0, siteHash(site), 0)
	}
	return x
}

// Channels of the code under test. Buffered channels are mediated: a task asks before it sends
// or receives, and is granted the operation only when it cannot block (room in the buffer, an
// element in it, or the channel closed), so the real operation that follows returns at once.
// Unbuffered channels need two running tasks to meet and are not mediated: the instrumenter
// refuses make(chan T) without a size, and a run that meets one anyway is discarded.
func chanAddr[C any](c C) uint64 { return uint64(*(*uintptr)(unsafe.Pointer(&c))) }

func ChanMake[T any](c chan T, site string) chan T {
	if Active() {
		if cap(c) == 0 {
			w.overflow = 1
		}
		yield(kChanMake, chanAddr(c), siteHash(site), 0)
	}
	return c
}

func ChanSend[T any](c chan<- T, v T, site string) {
	if Active() {
		if cap(c) == 0 {
			w.overflow = 1
		} else {
			yield(kChanSend, chanAddr(c), siteHash(site), 0)
		}
	}
	c <- v
}

func ChanRecv[T any](c <-chan T, site string) T {
	if Active() {
		if cap(c) == 0 {
			w.overflow = 1
		} else {
			yield(kChanRecv, chanAddr(c), siteHash(site), 0)
		}
	}
	return <-c
}

func ChanRecv2[T any](c <-chan T, site string) (T, bool) {
	if Active() {
		if cap(c) == 0 {
			w.overflow = 1
		} else {
			yield(kChanRecv, chanAddr(c), siteHash(site), 0)
		}
	}
	v, ok := <-c
	return v, ok
}

func ChanClose[T any](c chan<- T, site string) {
	close(c)
	if Active() {
		yield(kChanClose, chanAddr(c), siteHash(site), 0)
	}
}
