module simrt

go 1.18
