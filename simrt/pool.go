package simrt

import (
	"strings"
	"sync"
	"sync/atomic"
	"unsafe"
)

// Pool policies.
const (
	PoolReal        = 0 // pass through to the real sync.Pool
	PoolIsolating   = 1 // never hands an object to another task (same-task LIFO reuse, else New)
	PoolAdversarial = 2 // prefers the object most recently put by another task, then own, then New
	PoolRandom      = 3 // choice {fresh, own, other} from the run's PRNG
	PoolFreshOnly   = 4 // always New (a GC cycle between every Put and Get)
)

// PoolConfig selects the policy; pools whose Get site starts with one of IsolateSites are
// always treated with PoolIsolating (used for differential attribution of known findings).
type PoolConfig struct {
	Policy       int
	IsolateSites []string
}

const poolCap = 512

type poolEntry struct {
	pool  uintptr
	obj   any
	owner uint32
	slot  uint32 // happens-before slot of this Put (assigned in Put order: independent of addresses)
}

// The free list holds Go pointers and therefore lives in the Go heap. It is only touched
// from //go:norace functions that use element-wise loops (runtime helpers such as copy or
// append carry their own race hooks). Exactly one task runs at a time, so this is safe.
var (
	poolList                       [poolCap]poolEntry
	poolLen                        int
	poolCross, poolFresh, poolSame int
	poolSync                       [128]uint32 // per-object happens-before, like sync.Pool's poolRaceAddr
	poolCfg                        PoolConfig
	poolOn                         uint32
	poolRng                        uint64
	poolPuts                       uint32
)

//go:norace
func poolBegin(c PoolConfig) {
	for i := 0; i < poolLen; i++ {
		poolList[i] = poolEntry{}
	}
	poolLen = 0
	poolPuts = 0
	poolCross, poolFresh, poolSame = 0, 0, 0
	poolCfg = c
	if c.Policy != PoolReal {
		atomic.StoreUint32(&poolOn, 1)
	} else {
		atomic.StoreUint32(&poolOn, 0)
	}
}

//go:norace
func poolEnd() (fresh, same, cross int) {
	atomic.StoreUint32(&poolOn, 0)
	for i := 0; i < poolLen; i++ {
		poolList[i] = poolEntry{}
	}
	poolLen = 0
	return poolFresh, poolSame, poolCross
}

// PoolSimBegin / PoolSimEnd switch the simulated pool on for code that runs without the
// scheduler (single task).
func PoolSimBegin(c PoolConfig, seed uint64) {
	poolBegin(c)
	w.rng = seed
	w.poolLogLen = 0
	poolReplayBuf = nil
}
func PoolSimEnd() (fresh, same, cross int) { return poolEnd() }

// CurrentPoolConfig returns the policy in force (for runs that continue a pool session).
func CurrentPoolConfig() PoolConfig { return poolCfg }

// PoolSimSet switches the policy of the simulated pool without emptying it (a history of
// calls under changing policies shares one pool state, like a long-lived process does).
//go:norace
func PoolSimSet(c PoolConfig) {
	poolCfg = c
	poolReplayBuf = nil
	if c.Policy != PoolReal {
		atomic.StoreUint32(&poolOn, 1)
	} else {
		atomic.StoreUint32(&poolOn, 0)
	}
}

// PoolDropAll empties every simulated pool: what a GC cycle does to sync.Pool.
//go:norace
func PoolDropAll() {
	for i := 0; i < poolLen; i++ {
		poolList[i] = poolEntry{}
	}
	poolLen = 0
}

//go:norace
func poolTake(p uintptr, me uint32, decision int) (any, uint32, bool) {
	idx := -1
	if decision == 2 {
		for i := poolLen - 1; i >= 0; i-- {
			if poolList[i].pool == p && poolList[i].owner != me {
				idx = i
				break
			}
		}
	}
	if idx < 0 && decision >= 1 {
		for i := poolLen - 1; i >= 0; i-- {
			if poolList[i].pool == p && poolList[i].owner == me {
				idx = i
				break
			}
		}
	}
	if idx < 0 {
		poolFresh++
		return nil, 0, false
	}
	e := poolList[idx]
	if e.owner != me {
		poolCross++
	} else {
		poolSame++
	}
	for i := idx; i < poolLen-1; i++ {
		poolList[i] = poolList[i+1]
	}
	poolLen--
	poolList[poolLen] = poolEntry{}
	return e.obj, e.slot, true
}

//go:norace
func poolGive(p uintptr, me uint32, x any, slot uint32) {
	if poolLen == poolCap { // a pool may drop objects
		for i := 0; i < poolLen-1; i++ {
			poolList[i] = poolList[i+1]
		}
		poolLen--
	}
	poolList[poolLen] = poolEntry{pool: p, obj: x, owner: me, slot: slot}
	poolLen++
}

// nextPutSlot hands out the happens-before slots in Put order, so that which Puts share a slot
// (and thereby over-approximate happens-before, exactly like sync.Pool's own race modelling
// does) is a function of the run and not of heap addresses.
//go:norace
func nextPutSlot() uint32 {
	poolPuts++
	return poolPuts % 128
}

//go:norace
func poolPolicyFor(site string) int {
	for _, pre := range poolCfg.IsolateSites {
		if strings.HasPrefix(site, pre) {
			return PoolIsolating
		}
	}
	return poolCfg.Policy
}

func poolDecision(site string) int {
	d := 0
	switch poolPolicyFor(site) {
	case PoolIsolating:
		d = 1
	case PoolAdversarial:
		d = 2
	case PoolFreshOnly:
		d = 0
	case PoolRandom:
		i := w.poolLogLen
		if poolReplayBuf != nil {
			if int(i) < len(poolReplayBuf) {
				d = int(poolReplayBuf[i]) % 3
			}
		} else {
			d = rnd(3)
		}
	}
	if int(w.poolLogLen) < len(w.poolLog) {
		w.poolLog[w.poolLogLen] = uint8(d)
	}
	w.poolLogLen++
	return d
}

func PoolGet(p *sync.Pool, site string) any {
	if atomic.LoadUint32(&poolOn) == 0 {
		return p.Get()
	}
	me := uint32(0)
	if Active() {
		yield(kPoolGet, uint64(uintptr(unsafe.Pointer(p))), siteHash(site), 0)
		me = atomic.LoadUint32(&w.cur)
	}
	x, slot, ok := poolTake(uintptr(unsafe.Pointer(p)), me, poolDecision(site))
	if !ok {
		if p.New == nil {
			return nil
		}
		return p.New()
	}
	atomic.LoadUint32(&poolSync[slot]) // acquire: pairs with the release in PoolPut
	return x
}

func PoolPut(p *sync.Pool, x any, site string) {
	if atomic.LoadUint32(&poolOn) == 0 {
		p.Put(x)
		return
	}
	if x == nil {
		return
	}
	slot := nextPutSlot()
	atomic.AddUint32(&poolSync[slot], 1) // release
	me := uint32(0)
	if Active() {
		me = atomic.LoadUint32(&w.cur)
	}
	poolGive(uintptr(unsafe.Pointer(p)), me, x, slot)
	if Active() {
		yield(kPoolPut, uint64(uintptr(unsafe.Pointer(p))), siteHash(site), 0)
	}
}
