package simrt

import (
	"fmt"
	"os"
	"sync"
	"sync/atomic"
	"unsafe"
)

// Schedule strategies.
const (
	StratUniform  = 0 // uniform choice among enabled tasks at every decision
	StratSticky   = 1 // keep running the current task, switch with probability 1/SwitchDen
	StratPCT      = 2 // random priorities, ChangePoints priority drops at random decisions
	StratPreemptK = 3 // run until blocked, ChangePoints forced preemptions at random decisions
	NumStrategies = 4
)

// Config describes one simulated concurrent run. Everything random is derived from Seed.
type Config struct {
	Seed         uint64
	Strategy     int
	SwitchDen    int
	ChangePoints int
	Horizon      int     // expected number of decisions (places change points)
	Replay       []uint8 // if non-nil: decisions are read from here (exhausted -> 0), Strategy ignored
	PoolReplay   []uint8
	Pool         PoolConfig
	KeepPool     bool // do not reset the simulated pool: the run is part of a longer single-task pool session
}

// Report is what a run leaves behind.
type Report struct {
	Yields, Decisions, Switches    uint64
	BlockedOnLock, BlockedOnOnce   uint64
	TraceHash, SwitchHash          uint64
	Deadlock                       string
	Log                            []uint8  // one entry per decision: index into the enabled list (current task first, then by id)
	PoolLog                        []uint8  // one entry per simulated Pool.Get
	SwitchTrace                    []uint64 // task<<32|site for every context switch (capped)
	LogTruncated                   bool
	Overflow                       bool // a simulator table overflowed: discard the run
	PoolFresh, PoolSame, PoolCross int
	Tasks                          int
}

var replayBuf []uint8 // read-only during a run
var poolReplayBuf []uint8

func lockSlotFor(addr uint64, create bool) *lockSlot {
	i := uint32((addr>>3)*0x9e3779b1) & (maxLocks - 1)
	for n := 0; n < maxLocks; n++ {
		s := &w.locks[i]
		if s.addr == addr {
			return s
		}
		if s.addr == 0 {
			if !create {
				return nil
			}
			s.addr = addr
			return s
		}
		i = (i + 1) & (maxLocks - 1)
	}
	w.overflow = 1 // never panic inside the code under test: the run is reported as invalid
	return &w.locks[0]
}

func onceSlotFor(addr uint64, create bool) *onceSlot {
	i := uint32((addr>>2)*0x9e3779b1) & (maxOnces - 1)
	for n := 0; n < maxOnces; n++ {
		s := &w.onces[i]
		if s.addr == addr {
			return s
		}
		if s.addr == 0 {
			if !create {
				return nil
			}
			s.addr = addr
			return s
		}
		i = (i + 1) & (maxOnces - 1)
	}
	w.overflow = 1
	return &w.onces[0]
}

func wgSlotFor(addr uint64, create bool) *wgSlot {
	i := uint32((addr>>3)*0x9e3779b1) & (maxWGs - 1)
	for n := 0; n < maxWGs; n++ {
		s := &w.wgs[i]
		if s.addr == addr {
			return s
		}
		if s.addr == 0 {
			if !create {
				return nil
			}
			s.addr = addr
			return s
		}
		i = (i + 1) & (maxWGs - 1)
	}
	w.overflow = 1
	return &w.wgs[0]
}

func enabled(t int32) bool {
	ts := &w.task[t]
	if atomic.LoadUint32(&ts.state) != stParked {
		return false
	}
	switch ts.kind {
	case kLock:
		l := lockSlotFor(ts.obj, false)
		if l == nil || (l.writer == 0 && l.nread == 0) {
			return true
		}
		w.blockedLk++
		return false
	case kRLock:
		l := lockSlotFor(ts.obj, false)
		if l != nil && l.writer != 0 {
			w.blockedLk++
			return false
		}
		// Go's RWMutex prefers writers: a pending Lock blocks new readers.
		n := int32(w.ntasks)
		for o := int32(0); o < n; o++ {
			os := &w.task[o]
			if o != t && atomic.LoadUint32(&os.state) == stParked && os.kind == kLock && os.obj == ts.obj {
				w.blockedLk++
				return false
			}
		}
		return true
	case kOnce:
		o := onceSlotFor(ts.obj, false)
		if o == nil || o.owner == 0 {
			return true
		}
		w.blockedOn++
		return false
	case kWGWait:
		g := wgSlotFor(ts.obj, false)
		return g == nil || g.count <= 0
	case kChanSend:
		// a buffered channel: room in the buffer (a send on a closed channel panics at once)
		n, c := chanState(ts.obj)
		return n < c || chanClosed(ts.obj)
	case kChanRecv:
		n, _ := chanState(ts.obj)
		return n > 0 || chanClosed(ts.obj)
	}
	return true
}

// chanState reads the element count and the buffer size of the channel a parked task is about
// to use (the first two words of the runtime's channel header; the parked task keeps the channel
// alive, and no other task is running while a decision is taken).
//
//go:nocheckptr
func chanState(obj uint64) (n, c uint) {
	if obj == 0 {
		return 0, 0 // nil channel: blocks for ever
	}
	p := (*[2]uint)(unsafe.Pointer(uintptr(obj)))
	return p[0], p[1]
}

func chanClosed(obj uint64) bool {
	for i := uint32(0); i < w.nclosed; i++ {
		if w.closed[i].addr == obj {
			return true
		}
	}
	return false
}

// release-type effects are applied when the request is posted, acquire-type when it is granted.
func applyPost(t int32, kind uint32, obj uint64, arg int64) {
	switch kind {
	case kUnlock:
		if l := lockSlotFor(obj, false); l != nil {
			l.writer = 0
		}
	case kRUnlock:
		if l := lockSlotFor(obj, false); l != nil && l.readers[t] > 0 {
			l.readers[t]--
			l.nread--
		}
	case kWGAdd:
		wgSlotFor(obj, true).count += arg
	case kChanClose:
		if !chanClosed(obj) {
			if w.nclosed == maxClosed {
				w.overflow = 1
				return
			}
			w.closed[w.nclosed].addr = obj
			w.nclosed++
		}
	case kChanMake:
		// a new channel at an address an earlier, closed channel of this run had
		for i := uint32(0); i < w.nclosed; i++ {
			if w.closed[i].addr == obj {
				w.nclosed--
				w.closed[i] = w.closed[w.nclosed]
				break
			}
		}
	}
}

func grant(t int32) {
	ts := &w.task[t]
	switch ts.kind {
	case kLock:
		lockSlotFor(ts.obj, true).writer = t + 1
	case kRLock:
		l := lockSlotFor(ts.obj, true)
		l.readers[t]++
		l.nread++
	}
	w.traceHash = (w.traceHash ^ uint64(t+1) ^ uint64(ts.site)<<8 ^ uint64(ts.kind)<<40) * 1099511628211
	if traceDump != nil {
		traceDump = append(traceDump, traceEvent{t, ts.site, ts.kind})
	}
	atomic.StoreUint32(&ts.state, stRunning)
}

// traceDump: development aid (SIMRT_TRACE=1): every granted request of the last run, for
// comparing two executions that should have been identical.
type traceEvent struct {
	task       int32
	site, kind uint32
}

var traceDump []traceEvent

func init() {
	if os.Getenv("SIMRT_TRACE") != "" {
		traceDump = make([]traceEvent, 0, 1<<16)
	}
}

// TraceDump returns the granted requests since the last call, as "task site kind" lines.
func TraceDump() []string {
	var out []string
	for _, e := range traceDump {
		out = append(out, fmt.Sprintf("%d %s %d", e.task, SiteName(e.site), e.kind))
	}
	if traceDump != nil {
		traceDump = traceDump[:0]
	}
	return out
}

func rnd(n int) int { return int(splitmix(&w.rng) % uint64(n)) }

// pick returns the task to run next, or -1 when no task is enabled. cur is the task that was
// running until now (-1: none).
func pick(cur int32) int32 {
	var en [MaxTasks]int32
	ne := 0
	n := int32(w.ntasks)
	curEnabled := false
	if cur >= 0 && enabled(cur) {
		en[0] = cur
		ne = 1
		curEnabled = true
	}
	for t := int32(0); t < n; t++ {
		if t != cur && enabled(t) {
			en[ne] = t
			ne++
		}
	}
	if ne == 0 {
		return -1
	}
	w.yields++
	idx := 0
	if ne > 1 {
		idx = decide(en[:ne], curEnabled, cur)
		if w.logLen < logCap {
			w.log[w.logLen] = uint8(idx)
		}
		w.logLen++ // may exceed logCap: reported as truncated
		w.decisions++
	}
	nx := en[idx]
	if nx != cur && cur >= 0 {
		w.switches++
		v := uint64(nx)<<32 | uint64(w.task[nx].site)
		if w.nsw < switchCap {
			w.sw[w.nsw] = v
			w.nsw++
		}
		w.swHash = (w.swHash ^ v) * 1099511628211
	}
	return nx
}

func decide(en []int32, curEnabled bool, cur int32) int {
	ne := len(en)
	d := w.decisions
	if w.replay == 1 {
		if d < uint64(len(replayBuf)) {
			return int(replayBuf[d]) % ne
		}
		return 0
	}
	switch w.strategy {
	case StratSticky:
		if curEnabled {
			if rnd(int(w.switchDen)) != 0 {
				return 0
			}
			return 1 + rnd(ne-1)
		}
		return rnd(ne)
	case StratPCT:
		for i := uint32(0); i < w.nChange; i++ {
			if w.change[i] == d && cur >= 0 {
				w.task[cur].prio = w.lowPrio
				w.lowPrio--
			}
		}
		best := 0
		for i := 1; i < ne; i++ {
			if w.task[en[i]].prio > w.task[en[best]].prio {
				best = i
			}
		}
		return best
	case StratPreemptK:
		for i := uint32(0); i < w.nChange; i++ {
			if w.change[i] == d && curEnabled {
				return 1 + rnd(ne-1)
			}
		}
		if curEnabled {
			return 0
		}
		return rnd(ne)
	}
	return rnd(ne)
}

func describeBlocked() string {
	out := "deadlock:"
	n := int32(w.ntasks)
	for t := int32(0); t < n; t++ {
		ts := &w.task[t]
		if atomic.LoadUint32(&ts.state) == stParked {
			out += fmt.Sprintf(" task%d waits for %s(obj=%#x)@%s", t, kindNames[ts.kind], ts.obj, SiteName(ts.site))
			switch ts.kind {
			case kLock, kRLock:
				if l := lockSlotFor(ts.obj, false); l != nil {
					out += fmt.Sprintf("[writer=task%d readers=%d]", l.writer-1, l.nread)
				}
			case kOnce:
				if o := onceSlotFor(ts.obj, false); o != nil {
					out += fmt.Sprintf("[inside=task%d]", o.owner-1)
				}
			}
			out += ";"
		}
	}
	return out
}

func allFinished() bool {
	n := int32(w.ntasks)
	for t := int32(0); t < n; t++ {
		if atomic.LoadUint32(&w.task[t].state) != stFinished {
			return false
		}
	}
	return true
}

func signalMain(code uint32) {
	atomic.StoreUint32(&w.done, code)
	atomic.AddUint32(&w.mainWord, 1)
	futexWake(&w.mainWord)
}

func handOff(next int32) {
	nt := &w.task[next]
	atomic.StoreUint32(&w.cur, uint32(next))
	atomic.AddUint32(&nt.wake, 1)
	futexWake(&nt.wake)
}

// yield is called by the running task at every seam. It posts the request, lets the
// scheduler (running inline, in this very task) pick who runs next, and returns when this
// task's request has been granted.
func yield(kind uint32, obj uint64, site uint32, arg int64) uint64 {
	me := int32(atomic.LoadUint32(&w.cur))
	ts := &w.task[me]
	applyPost(me, kind, obj, arg)
	ts.kind, ts.obj, ts.site = kind, obj, site
	atomic.StoreUint32(&ts.state, stParked)
	next := pick(me)
	if next < 0 {
		setDesc(describeBlocked())
		signalMain(2)
		for { // the process is about to be torn down by the harness
			futexWait(&ts.wake, atomic.LoadUint32(&ts.wake))
		}
	}
	grant(next)
	if next == me {
		return ts.arg
	}
	wk := atomic.LoadUint32(&ts.wake)
	gen := atomic.LoadUint32(&w.gen)
	handOff(next)
	for atomic.LoadUint32(&ts.wake) == wk {
		futexWait(&ts.wake, wk)
	}
	if atomic.LoadUint32(&w.gen) != gen {
		// this task belongs to an earlier run that ended in a deadlock; its slot has been reused
		for {
			futexWait(&w.zombie, 0)
		}
	}
	return ts.arg
}

func finish() {
	me := int32(atomic.LoadUint32(&w.cur))
	atomic.StoreUint32(&w.task[me].state, stFinished)
	next := pick(me)
	if next < 0 {
		if allFinished() {
			signalMain(1)
		} else {
			setDesc(describeBlocked())
			signalMain(2)
		}
		return
	}
	grant(next)
	handOff(next)
}

// taskWG: the WaitGroup of the CURRENT run (tasks of a deadlocked earlier run never finish and
// must not be waited for).
var taskWG *sync.WaitGroup

func spawn(id int32, fn func()) {
	ts := &w.task[id]
	*ts = taskSlot{}
	ts.kind = kStart
	ts.prio = int64(100 + rnd(1<<20))
	atomic.StoreUint32(&ts.state, stParked)
	wk := atomic.LoadUint32(&ts.wake)
	gen := atomic.LoadUint32(&w.gen)
	wg := taskWG
	wg.Add(1)
	go func() {
		defer wg.Done()
		for atomic.LoadUint32(&ts.wake) == wk {
			futexWait(&ts.wake, wk)
		}
		if atomic.LoadUint32(&w.gen) != gen {
			for {
				futexWait(&w.zombie, 0)
			}
		}
		defer finish()
		fn()
	}()
}

// Go is what a `go f()` statement of the code under test becomes.
func Go(fn func(), site string) {
	if !Active() {
		go fn()
		return
	}
	id := int32(w.ntasks)
	if id >= MaxTasks {
		// the slot of a task that has finished is used again (its goroutine has gone)
		id = -1
		for t := int32(1); t < MaxTasks; t++ {
			if atomic.LoadUint32(&w.task[t].state) == stFinished {
				id = t
				break
			}
		}
		if id < 0 {
			panic("simrt: too many tasks")
		}
	} else {
		w.ntasks++
	}
	spawn(id, fn)
	yield(kGo, 0, siteHash(site), 0)
}

// Run executes fns as tasks under the deterministic scheduler and returns when all of them
// have finished or none can make progress.
func Run(cfg Config, fns ...func()) Report {
	n := len(fns)
	if n == 0 || n > MaxTasks {
		panic("simrt: bad task count")
	}
	// reset world
	for i := range w.locks {
		if w.locks[i].addr != 0 {
			w.locks[i] = lockSlot{}
		}
	}
	for i := range w.onces {
		if w.onces[i].addr != 0 {
			w.onces[i] = onceSlot{}
		}
	}
	for i := range w.wgs {
		w.wgs[i] = wgSlot{}
	}
	w.nclosed = 0
	atomic.AddUint32(&w.gen, 1)
	taskWG = &sync.WaitGroup{}
	w.rng = cfg.Seed
	w.strategy = uint32(cfg.Strategy)
	w.replay = 0
	replayBuf, poolReplayBuf = cfg.Replay, cfg.PoolReplay
	if cfg.Replay != nil {
		w.replay = 1
	}
	w.switchDen = uint32(cfg.SwitchDen)
	if w.switchDen < 2 {
		w.switchDen = 8
	}
	w.nChange = uint32(cfg.ChangePoints)
	if w.nChange > 8 {
		w.nChange = 8
	}
	h := cfg.Horizon
	if h < 1 {
		h = 1000
	}
	for i := uint32(0); i < w.nChange; i++ {
		w.change[i] = uint64(rnd(h))
	}
	w.lowPrio = 50
	w.yields, w.decisions, w.switches, w.blockedLk, w.blockedOn, w.onceCont = 0, 0, 0, 0, 0, 0
	w.traceHash, w.swHash = 14695981039346656037, 14695981039346656037
	w.logLen, w.poolLogLen, w.nsw, w.descLen = 0, 0, 0, 0
	w.done = 0
	w.overflow = 0
	w.ntasks = uint32(n)
	if !cfg.KeepPool {
		poolBegin(cfg.Pool)
	}
	for i := 0; i < n; i++ {
		spawn(int32(i), fns[i])
	}
	mw := atomic.LoadUint32(&w.mainWord)
	atomic.StoreUint32(&w.active, 1)
	first := pick(-1)
	grant(first)
	handOff(first)
	for atomic.LoadUint32(&w.done) == 0 {
		futexWait(&w.mainWord, mw)
		mw = atomic.LoadUint32(&w.mainWord)
	}
	atomic.StoreUint32(&w.active, 0)
	rep := Report{
		Yields: w.yields, Decisions: w.decisions, Switches: w.switches,
		BlockedOnLock: w.blockedLk, BlockedOnOnce: w.blockedOn,
		TraceHash: w.traceHash, SwitchHash: w.swHash, Tasks: int(w.ntasks),
		Overflow: w.overflow != 0,
	}
	if atomic.LoadUint32(&w.done) == 2 {
		rep.Deadlock = string(w.desc[:w.descLen])
	} else {
		taskWG.Wait()
	}
	ll := w.logLen
	if ll > logCap {
		ll = logCap
		rep.LogTruncated = true
	}
	rep.Log = make([]uint8, ll)
	for i := range rep.Log {
		rep.Log[i] = w.log[i]
	}
	pl := w.poolLogLen
	if pl > uint32(len(w.poolLog)) {
		pl = uint32(len(w.poolLog))
	}
	rep.PoolLog = make([]uint8, pl)
	for i := range rep.PoolLog {
		rep.PoolLog[i] = w.poolLog[i]
	}
	rep.SwitchTrace = make([]uint64, w.nsw)
	for i := range rep.SwitchTrace {
		rep.SwitchTrace[i] = w.sw[i]
	}
	if cfg.KeepPool {
		rep.PoolFresh, rep.PoolSame, rep.PoolCross = poolFresh, poolSame, poolCross
	} else {
		rep.PoolFresh, rep.PoolSame, rep.PoolCross = poolEnd()
	}
	return rep
}
