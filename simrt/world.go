// Package simrt holds the runtime seams that /verif/instrument routes the code under test
// through: scheduler yield points at every sync operation, a simulated sync.Pool, a
// permuted map iteration order, mediated file-system calls and ambient-input stubs.
//
// With no simulation attached every seam is the identity (pass-through to the real
// primitive), which is how the repository's own test suite is run on the instrumented copy.
//
// All simulator state that is touched by more than one task lives in mmap'd memory outside
// the Go heap and hand-offs use the raw futex syscall: ThreadSanitizer ignores both, so the
// simulator creates no happens-before edge between tasks and the race detector still sees
// exactly the synchronisation the code under test performs itself.
package simrt

import (
	"sync/atomic"
	"syscall"
	"unsafe"
)

const (
	MaxTasks  = 16
	maxLocks  = 1 << 17 // open-addressed table of mutex addresses
	maxOnces  = 1 << 16
	maxWGs    = 1 << 8
	logCap    = 1 << 21 // schedule decisions kept per run
	switchCap = 1 << 16 // (task,site) pairs at which a switch happened, kept for the trace
	descCap   = 1 << 12
)

const (
	stNone     = 0
	stRunning  = 1
	stParked   = 2
	stFinished = 3
)

// request kinds
const (
	kStart = iota + 1
	kLock
	kUnlock
	kRLock
	kRUnlock
	kOnce
	kOnceDone
	kPoolGet
	kPoolPut
	kOS
	kGo
	kWGWait
	kWGAdd
	kYield
	kFinish
	kChanSend
	kChanRecv
	kChanClose
	kChanMake
)

var kindNames = [...]string{"?", "start", "lock", "unlock", "rlock", "runlock", "once", "oncedone", "poolget", "poolput", "os", "go", "wgwait", "wgadd", "yield", "finish", "chansend", "chanrecv", "chanclose", "chanmake"}

type taskSlot struct {
	wake  uint32 // futex word
	state uint32
	kind  uint32
	site  uint32
	obj   uint64
	arg   uint64
	prio  int64 // PCT priority
	_     [24]byte
}

type lockSlot struct {
	addr    uint64
	writer  int32 // task id+1, 0 = none
	nread   int32
	readers [MaxTasks]int32
}

type onceSlot struct {
	addr  uint64
	owner int32 // task id+1 while inside f, 0 otherwise
	_     int32
}

// closedSlot: a channel of the code under test that has been closed (everything else about a
// channel is read from the channel itself when a decision is taken)
type closedSlot struct {
	addr uint64
}

const maxClosed = 1 << 8

type wgSlot struct {
	addr  uint64
	count int64
}

type world struct {
	active   uint32
	cur      uint32
	ntasks   uint32
	mainWord uint32 // futex word main waits on
	done     uint32 // 1 = all finished, 2 = deadlock
	overflow uint32 // a table of the simulator was full: the run is not a valid simulation
	gen      uint32 // incremented by every Run: tasks left over from a deadlocked run must never continue
	zombie   uint32 // futex word nobody ever changes
	ops      uint64 // seam operations executed (locks, onces, pool, map ranges, file accesses): a deterministic measure of work
	_        uint32

	rng      uint64
	strategy uint32
	replay   uint32 // 1: decisions come from log[0:replayLen]
	// strategy parameters
	switchDen  uint32     // strategy 1: switch with probability 1/switchDen
	nChange    uint32     // strategy 2/3: number of change points
	change     [8]uint64  // yield indices of change points
	lowPrio    int64      // next priority handed out at a change point (decreasing)

	yields    uint64
	decisions uint64
	switches  uint64
	blockedLk uint64 // times a task with a lock/rlock request was not enabled when a decision was taken
	blockedOn uint64 // same for once
	onceCont  uint64
	traceHash uint64
	swHash    uint64

	logLen    uint32
	replayLen uint32
	poolLogLen    uint32
	poolReplayLen uint32
	nsw       uint32
	descLen   uint32

	task  [MaxTasks]taskSlot
	locks [maxLocks]lockSlot
	onces [maxOnces]onceSlot
	wgs   [maxWGs]wgSlot
	closed [maxClosed]closedSlot
	nclosed uint32
	log   [logCap]uint8
	poolLog [1 << 16]uint8
	sw    [switchCap]uint64 // task<<32 | site
	desc  [descCap]byte
}

var w *world

func init() {
	size := int(unsafe.Sizeof(world{}))
	size = (size + 4095) &^ 4095
	mem, err := syscall.Mmap(-1, 0, size, syscall.PROT_READ|syscall.PROT_WRITE, syscall.MAP_ANON|syscall.MAP_PRIVATE)
	if err != nil {
		panic("simrt: mmap: " + err.Error())
	}
	w = (*world)(unsafe.Pointer(&mem[0]))
}

func futexWait(addr *uint32, val uint32) {
	syscall.Syscall6(syscall.SYS_FUTEX, uintptr(unsafe.Pointer(addr)), 0 /*FUTEX_WAIT*/, uintptr(val), 0, 0, 0)
}

func futexWake(addr *uint32) {
	syscall.Syscall6(syscall.SYS_FUTEX, uintptr(unsafe.Pointer(addr)), 1 /*FUTEX_WAKE*/, 1<<30, 0, 0, 0)
}

// Active reports whether a scheduler is attached. Shims are pass-through otherwise.
func Active() bool { return atomic.LoadUint32(&w.active) == 1 }

func splitmix(s *uint64) uint64 {
	*s += 0x9e3779b97f4a7c15
	z := *s
	z = (z ^ (z >> 30)) * 0xbf58476d1ce4e5b9
	z = (z ^ (z >> 27)) * 0x94d049bb133111eb
	return z ^ (z >> 31)
}

// Mix is SplitMix64's output function applied to x; exported for harness-side seed derivation.
func Mix(x uint64) uint64 { s := x; return splitmix(&s) }

func siteHash(s string) uint32 {
	h := uint32(2166136261)
	for i := 0; i < len(s); i++ {
		h = (h ^ uint32(s[i])) * 16777619
	}
	return h
}

func setDesc(s string) {
	n := len(s)
	if n > descCap {
		n = descCap
	}
	for i := 0; i < n; i++ {
		w.desc[i] = s[i]
	}
	w.descLen = uint32(n)
}
