package simrt

import (
	"os"
	"sync/atomic"
	"time"
)

// Ambient inputs (clock, global PRNG, pid, environment). The code under test reads none of
// them today; the instrumenter routes any such read that a change introduces through here,
// where it is counted and answered from the run's ambient seed, so that two repetitions of
// the same build see different values (C06) and the harness can report the read.

var ambientSeed uint64
var ambientReads uint64

func SetAmbient(seed uint64) { atomic.StoreUint64(&ambientSeed, seed); atomic.StoreUint64(&ambientReads, 0) }
func AmbientReads() uint64   { return atomic.LoadUint64(&ambientReads) }

func ambient() uint64 {
	n := atomic.AddUint64(&ambientReads, 1)
	return Mix(atomic.LoadUint64(&ambientSeed) + n*0x9e3779b97f4a7c15)
}

func Now(site string) time.Time {
	return time.Unix(1600000000+int64(ambient()%(1<<30)), int64(ambient()%1000000000))
}
func Since(t time.Time, site string) time.Duration { return Now(site).Sub(t) }
func Until(t time.Time, site string) time.Duration { return t.Sub(Now(site)) }
func RandInt63(site string) int64                  { return int64(ambient() >> 1) }
func RandIntn(n int, site string) int {
	if n <= 0 {
		panic("invalid argument to Intn")
	}
	return int(ambient() % uint64(n))
}
func RandInt(site string) int         { return int(ambient() >> 1) }
func RandUint32(site string) uint32   { return uint32(ambient()) }
func RandUint64(site string) uint64   { return ambient() }
func RandFloat64(site string) float64 { return float64(ambient()>>11) / (1 << 53) }
func Getpid(site string) int          { return 1000 + int(ambient()%30000) }
func Getenv(key string, site string) string {
	return "" + string(rune('a'+ambient()%26))
}
// ExpandEnv: $NAME and ${NAME} are replaced by what the simulated environment answers
func ExpandEnv(s string, site string) string {
	return os.Expand(s, func(k string) string { return Getenv(k, site) })
}
func Hostname(site string) (string, error) { return "host" + string(rune('a'+ambient()%26)), nil }
