// Command instrument rewrites a scratch copy of jsight-api-core (and of jsight-schema-core)
// so that every source of nondeterminism and every fault source goes through /verif/simrt:
//
//	T1  file-system calls of os, io/ioutil, path/filepath  -> simrt.Stat/ReadFile/... (sim-disk seam)
//	T2  `for ... range m` over a map                          -> range over simrt.MapKeys(m, site)
//	T3  sync.Mutex/RWMutex/Once/Pool/WaitGroup methods, go    -> simrt.Lock/.../Go (scheduler + sim-pool seam)
//	T5  time.Now/Since/Until, global math/rand, os.Getpid/... -> simrt.Now/... (ambient seam)
//
// The matching is done on go/types information, not on names. Anything that cannot be
// mediated soundly (channels, select, sync.Cond, method values of sync types, map keys
// without a canonical order, labelled ranges over call results) stops the tool with exit 2
// and a message that names the position. Each rewritten site gets the id pkg.Func#n.
//
// usage: instrument [-sites out.json] <dir> <package patterns...>
package main

import (
	"bytes"
	"encoding/json"
	"flag"
	"fmt"
	"go/ast"
	"go/format"
	"go/token"
	"go/types"
	"os"
	"sort"
	"strings"

	"golang.org/x/tools/go/ast/astutil"
	"golang.org/x/tools/go/packages"
)

type stats struct {
	Files, MapRange, Sync, OS, Ambient, Go int
}

var st stats
var allSites []string
var mapSites []string

func main() {
	sitesOut := flag.String("sites", "", "write the site table (JSON) here")
	flag.Parse()
	if flag.NArg() < 2 {
		fatal("usage: instrument [-sites f] dir patterns...")
	}
	dir := flag.Arg(0)
	patterns := flag.Args()[1:]
	cfg := &packages.Config{
		Mode: packages.NeedName | packages.NeedFiles | packages.NeedSyntax | packages.NeedTypes | packages.NeedTypesInfo | packages.NeedCompiledGoFiles,
		Dir:  dir, Tests: false,
	}
	pkgs, err := packages.Load(cfg, patterns...)
	if err != nil {
		fatal("load: %v", err)
	}
	if packages.PrintErrors(pkgs) > 0 {
		fatal("package errors")
	}
	sort.Slice(pkgs, func(i, j int) bool { return pkgs[i].PkgPath < pkgs[j].PkgPath })
	for _, p := range pkgs {
		if strings.Contains(p.PkgPath, "/internal/cmd/") || strings.HasSuffix(p.PkgPath, "/internal/mocks") {
			continue // developer tools (code generator, snapshot checker) and testify mocks: not part of a build
		}
		for i, f := range p.Syntax {
			fn := p.CompiledGoFiles[i]
			if strings.HasSuffix(fn, "_test.go") {
				continue
			}
			if rewriteFile(p, f) {
				var buf bytes.Buffer
				if err := format.Node(&buf, p.Fset, f); err != nil {
					fatal("format %s: %v", fn, err)
				}
				if err := os.WriteFile(fn, buf.Bytes(), 0o644); err != nil {
					fatal("write %s: %v", fn, err)
				}
				st.Files++
			}
		}
	}
	if *sitesOut != "" {
		sort.Strings(allSites)
		sort.Strings(mapSites)
		b, _ := json.Marshal(map[string]any{"sites": allSites, "map_sites": mapSites, "stats": st})
		if err := os.WriteFile(*sitesOut, b, 0o644); err != nil {
			fatal("write sites: %v", err)
		}
	}
	fmt.Printf("instrumented: files=%d mapRange=%d sync=%d os=%d ambient=%d go=%d\n", st.Files, st.MapRange, st.Sync, st.OS, st.Ambient, st.Go)
}

func fatal(f string, a ...any) {
	fmt.Fprintf(os.Stderr, "instrument: "+f+"\n", a...)
	os.Exit(2)
}

type rewriter struct {
	p       *packages.Package
	f       *ast.File
	changed bool
	fn      string
	n       int
	tmp     int
	callFun map[ast.Expr]bool // selector expressions in call position
	nonBlocking map[ast.Node]bool // select statements with a default clause and the channel operations in their cases
}

func (r *rewriter) pos(n ast.Node) token.Position { return r.p.Fset.Position(n.Pos()) }

func (r *rewriter) site() *ast.BasicLit {
	r.n++
	s := fmt.Sprintf("%s.%s#%d", r.p.Name, r.fn, r.n)
	allSites = append(allSites, s)
	return &ast.BasicLit{Kind: token.STRING, Value: fmt.Sprintf("%q", s)}
}

func rewriteFile(p *packages.Package, f *ast.File) bool {
	r := &rewriter{p: p, f: f, callFun: map[ast.Expr]bool{}, nonBlocking: map[ast.Node]bool{}}
	ast.Inspect(f, func(n ast.Node) bool {
		if c, ok := n.(*ast.CallExpr); ok {
			r.callFun[ast.Unparen(c.Fun)] = true
		}
		// A select WITH a default clause never blocks: its channel operations are left as they are
		// (a scheduling point is put in front of the select). Everything else on channels can block
		// the only running task for ever and is refused.
		if sel, ok := n.(*ast.SelectStmt); ok {
			hasDefault := false
			for _, cl := range sel.Body.List {
				if cc, ok := cl.(*ast.CommClause); ok && cc.Comm == nil {
					hasDefault = true
				}
			}
			if hasDefault {
				r.nonBlocking[sel] = true
				for _, cl := range sel.Body.List {
					if cc, ok := cl.(*ast.CommClause); ok && cc.Comm != nil {
						ast.Inspect(cc.Comm, func(m ast.Node) bool {
							if m != nil {
								r.nonBlocking[m] = true
							}
							return true
						})
					}
				}
			}
		}
		return true
	})
	for _, d := range f.Decls {
		fd, ok := d.(*ast.FuncDecl)
		if !ok || fd.Body == nil {
			r.fn = "init"
			r.n = 0
			r.rewriteNode(d)
			continue
		}
		r.fn = fd.Name.Name
		if fd.Recv != nil && len(fd.Recv.List) == 1 {
			r.fn = recvName(fd.Recv.List[0].Type) + "." + fd.Name.Name
		}
		r.n = 0
		r.rewriteNode(fd)
	}
	if r.changed {
		astutil.AddImport(p.Fset, f, "simrt")
		for _, path := range []string{"os", "io/ioutil", "time", "math/rand", "path/filepath", "sync"} {
			if !astutil.UsesImport(f, path) {
				astutil.DeleteImport(p.Fset, f, path)
			}
		}
	}
	return r.changed
}

func recvName(e ast.Expr) string {
	switch x := e.(type) {
	case *ast.StarExpr:
		return recvName(x.X)
	case *ast.Ident:
		return x.Name
	case *ast.IndexExpr:
		return recvName(x.X)
	case *ast.IndexListExpr:
		return recvName(x.X)
	}
	return "?"
}

func (r *rewriter) rewriteNode(n ast.Node) {
	astutil.Apply(n, nil, func(c *astutil.Cursor) bool {
		switch x := c.Node().(type) {
		case *ast.RangeStmt:
			r.rewriteRange(c, x)
		case *ast.CallExpr:
			r.rewriteCall(c, x)
		case *ast.SelectorExpr:
			r.checkMethodValue(x)
		case *ast.GoStmt:
			r.rewriteGo(c, x)
		case *ast.SelectStmt:
			if !r.nonBlocking[x] {
				fatal("select statement without default at %s: blocking channel operations are not mediated", r.pos(x))
			}
			if _, labeled := c.Parent().(*ast.LabeledStmt); labeled {
				fatal("labelled select at %s cannot be mediated", r.pos(x))
			}
			c.Replace(&ast.BlockStmt{List: []ast.Stmt{&ast.ExprStmt{X: &ast.CallExpr{Fun: sel("simrt", "Yield"), Args: []ast.Expr{r.site()}}}, x}})
			r.changed = true
			st.Sync++
		case *ast.SendStmt:
			if !r.nonBlocking[x] {
				// buffered channels are mediated by simrt (a send is granted when it cannot block)
				if _, labeled := c.Parent().(*ast.LabeledStmt); labeled {
					fatal("labelled channel send at %s cannot be mediated", r.pos(x))
				}
				c.Replace(&ast.ExprStmt{X: &ast.CallExpr{Fun: sel("simrt", "ChanSend"), Args: []ast.Expr{x.Chan, x.Value, r.site()}}})
				r.changed = true
				st.Sync++
			}
		case *ast.UnaryExpr:
			if x.Op == token.ARROW && !r.nonBlocking[x] {
				fn := "ChanRecv"
				switch p := c.Parent().(type) {
				case *ast.AssignStmt:
					if len(p.Lhs) == 2 && len(p.Rhs) == 1 {
						fn = "ChanRecv2"
					}
				case *ast.ValueSpec:
					if len(p.Names) == 2 && len(p.Values) == 1 {
						fn = "ChanRecv2"
					}
				}
				c.Replace(&ast.CallExpr{Fun: sel("simrt", fn), Args: []ast.Expr{x.X, r.site()}})
				r.changed = true
				st.Sync++
			}
		}
		return true
	})
}

// rewriteGo: `go f(a, b)` becomes
//
//	{ simf := f; sima0 := a; sima1 := b; simrt.Go(func() { simf(sima0, sima1) }, site) }
//
// so that the function value and the arguments are still evaluated at the go statement, and
// the new goroutine becomes a task of the simulated scheduler.
func (r *rewriter) rewriteGo(c *astutil.Cursor, g *ast.GoStmt) {
	if _, labeled := c.Parent().(*ast.LabeledStmt); labeled {
		fatal("labelled go statement at %s cannot be mediated", r.pos(g))
	}
	r.tmp++
	var pre []ast.Stmt
	call := &ast.CallExpr{Fun: g.Call.Fun, Ellipsis: g.Call.Ellipsis}
	isConst := func(e ast.Expr) bool {
		tv, ok := r.p.TypesInfo.Types[e]
		return ok && (tv.Value != nil || tv.IsNil())
	}
	switch fn := ast.Unparen(g.Call.Fun).(type) {
	case *ast.FuncLit:
		// evaluated in place: a literal has no side effects
	case *ast.Ident:
		_ = fn
	default:
		name := fmt.Sprintf("simf%d", r.tmp)
		pre = append(pre, &ast.AssignStmt{Lhs: []ast.Expr{ast.NewIdent(name)}, Tok: token.DEFINE, Rhs: []ast.Expr{g.Call.Fun}})
		call.Fun = ast.NewIdent(name)
	}
	for i, a := range g.Call.Args {
		if isConst(a) {
			call.Args = append(call.Args, a)
			continue
		}
		name := fmt.Sprintf("sima%d_%d", r.tmp, i)
		pre = append(pre, &ast.AssignStmt{Lhs: []ast.Expr{ast.NewIdent(name)}, Tok: token.DEFINE, Rhs: []ast.Expr{a}})
		call.Args = append(call.Args, ast.NewIdent(name))
	}
	body := &ast.FuncLit{Type: &ast.FuncType{Params: &ast.FieldList{}}, Body: &ast.BlockStmt{List: []ast.Stmt{&ast.ExprStmt{X: call}}}}
	goCall := &ast.ExprStmt{X: &ast.CallExpr{Fun: sel("simrt", "Go"), Args: []ast.Expr{body, r.site()}}}
	c.Replace(&ast.BlockStmt{List: append(pre, goCall)})
	r.changed = true
	st.Go++
}

func simple(e ast.Expr) bool {
	switch x := e.(type) {
	case *ast.Ident:
		return true
	case *ast.SelectorExpr:
		return simple(x.X)
	case *ast.ParenExpr:
		return simple(x.X)
	case *ast.StarExpr:
		return simple(x.X)
	}
	return false
}

func canonicalKey(t types.Type) bool {
	switch u := t.Underlying().(type) {
	case *types.Basic:
		return u.Info()&(types.IsString|types.IsInteger|types.IsFloat|types.IsBoolean) != 0
	case *types.Struct:
		for i := 0; i < u.NumFields(); i++ {
			if !canonicalKey(u.Field(i).Type()) {
				return false
			}
		}
		return true
	case *types.Array:
		return canonicalKey(u.Elem())
	}
	return false // pointers, channels, interfaces: no order that is stable across runs
}

func (r *rewriter) rewriteRange(c *astutil.Cursor, x *ast.RangeStmt) {
	t := r.p.TypesInfo.TypeOf(x.X)
	if t == nil {
		return
	}
	mt, ok := t.Underlying().(*types.Map)
	if !ok {
		if _, isChan := t.Underlying().(*types.Chan); isChan {
			fatal("range over channel at %s: channels are not mediated", r.pos(x))
		}
		return
	}
	if !canonicalKey(mt.Key()) {
		// address-like keys: simrt orders them by address within a run (see simrt/maporder.go)
		fmt.Fprintf(os.Stderr, "instrument: note: map range at %s has address-like keys (%s); base order is by address\n", r.pos(x), mt.Key())
	}
	r.tmp++
	var hoist ast.Stmt
	if !simple(x.X) {
		if _, labeled := c.Parent().(*ast.LabeledStmt); labeled {
			fatal("labelled map range over a non-simple expression at %s", r.pos(x))
		}
		mname := fmt.Sprintf("simm%d", r.tmp)
		hoist = &ast.AssignStmt{Lhs: []ast.Expr{ast.NewIdent(mname)}, Tok: token.DEFINE, Rhs: []ast.Expr{x.X}}
		x.X = ast.NewIdent(mname)
	}
	kname := fmt.Sprintf("simk%d", r.tmp)
	okname := fmt.Sprintf("simok%d", r.tmp)
	var pre []ast.Stmt
	tok := x.Tok
	if tok == token.ILLEGAL {
		tok = token.DEFINE
	}
	keyUsed := x.Key != nil && !isBlank(x.Key)
	valUsed := x.Value != nil && !isBlank(x.Value)
	var valLHS ast.Expr = ast.NewIdent("_")
	if valUsed {
		valLHS = x.Value
	}
	notOK := &ast.IfStmt{Cond: &ast.UnaryExpr{Op: token.NOT, X: ast.NewIdent(okname)}, Body: &ast.BlockStmt{List: []ast.Stmt{&ast.BranchStmt{Tok: token.CONTINUE}}}}
	if valUsed && tok == token.ASSIGN {
		pre = append(pre,
			&ast.AssignStmt{Lhs: []ast.Expr{ast.NewIdent("_"), ast.NewIdent(okname)}, Tok: token.DEFINE,
				Rhs: []ast.Expr{&ast.IndexExpr{X: x.X, Index: ast.NewIdent(kname)}}},
			notOK,
			&ast.AssignStmt{Lhs: []ast.Expr{x.Value}, Tok: token.ASSIGN, Rhs: []ast.Expr{&ast.IndexExpr{X: x.X, Index: ast.NewIdent(kname)}}},
		)
	} else {
		pre = append(pre,
			&ast.AssignStmt{Lhs: []ast.Expr{valLHS, ast.NewIdent(okname)}, Tok: token.DEFINE,
				Rhs: []ast.Expr{&ast.IndexExpr{X: x.X, Index: ast.NewIdent(kname)}}},
			notOK,
		)
	}
	if keyUsed {
		pre = append([]ast.Stmt{&ast.AssignStmt{Lhs: []ast.Expr{x.Key}, Tok: tok, Rhs: []ast.Expr{ast.NewIdent(kname)}}}, pre...)
	}
	x.Body.List = append(pre, x.Body.List...)
	x.Key = ast.NewIdent("_")
	x.Value = ast.NewIdent(kname)
	x.Tok = token.DEFINE
	siteLit := r.site()
	mapSites = append(mapSites, allSites[len(allSites)-1])
	x.X = &ast.CallExpr{Fun: sel("simrt", "MapKeys"), Args: []ast.Expr{x.X, siteLit}}
	r.changed = true
	st.MapRange++
	if hoist != nil {
		c.Replace(&ast.BlockStmt{List: []ast.Stmt{hoist, x}})
	}
}

func isBlank(e ast.Expr) bool {
	id, ok := e.(*ast.Ident)
	return ok && id.Name == "_"
}

func sel(pkg, name string) ast.Expr {
	return &ast.SelectorExpr{X: ast.NewIdent(pkg), Sel: ast.NewIdent(name)}
}

// file-system entry points with a dedicated wrapper in simrt (same signature + site)
var osWrapped = map[string]string{
	"os.Stat": "Stat", "os.Lstat": "Lstat", "os.ReadFile": "ReadFile", "os.Open": "Open",
	"os.OpenFile": "OpenFile", "os.ReadDir": "ReadDir", "os.Readlink": "Readlink",
	"io/ioutil.ReadFile": "ReadFile",
}

// file-system entry points that are only logged (first argument is the path)
var osLogged = map[string]bool{
	"os.Create": true, "os.WriteFile": true, "os.Remove": true, "os.RemoveAll": true, "os.Mkdir": true,
	"os.MkdirAll": true, "os.Rename": true, "os.Chdir": true, "os.Truncate": true, "os.Symlink": true,
	"os.Link": true, "os.Chmod": true, "os.DirFS": true, "os.CreateTemp": true, "os.MkdirTemp": true,
	"io/ioutil.ReadDir": true, "io/ioutil.WriteFile": true, "io/ioutil.TempFile": true, "io/ioutil.TempDir": true,
	"path/filepath.Walk": true, "path/filepath.WalkDir": true, "path/filepath.Glob": true,
	"path/filepath.EvalSymlinks": true, "path/filepath.Abs": true,
}

var ambientWrapped = map[string]string{
	"time.Now": "Now", "time.Since": "Since", "time.Until": "Until",
	"math/rand.Int63": "RandInt63", "math/rand.Intn": "RandIntn", "math/rand.Int": "RandInt",
	"math/rand.Uint32": "RandUint32", "math/rand.Uint64": "RandUint64", "math/rand.Float64": "RandFloat64",
	"os.Getpid": "Getpid", "os.Getenv": "Getenv", "os.Hostname": "Hostname", "os.ExpandEnv": "ExpandEnv",
}

var ambientRefused = map[string]bool{
	"time.Sleep": true, "time.After": true, "time.Tick": true, "time.NewTimer": true, "time.NewTicker": true, "time.AfterFunc": true,
	"math/rand.Seed": true, "math/rand.Perm": true, "math/rand.Shuffle": true, "math/rand.Int31": true, "math/rand.Int31n": true,
	"math/rand.Int63n": true, "math/rand.Float32": true, "math/rand.Read": true, "math/rand.NormFloat64": true, "math/rand.ExpFloat64": true,
	"os.Environ": true, "os.LookupEnv": true, "os.Getppid": true,
}

func (r *rewriter) rewriteCall(c *astutil.Cursor, call *ast.CallExpr) {
	if id, ok := call.Fun.(*ast.Ident); ok {
		if _, builtin := r.p.TypesInfo.Uses[id].(*types.Builtin); builtin && len(call.Args) > 0 {
			switch id.Name {
			case "close":
				call.Fun = sel("simrt", "ChanClose")
				call.Args = append(call.Args, r.site())
				r.changed = true
				st.Sync++
			case "make":
				if t := r.p.TypesInfo.TypeOf(call.Args[0]); t != nil {
					if _, isChan := t.Underlying().(*types.Chan); isChan {
						if len(call.Args) < 2 {
							fatal("make of an unbuffered channel at %s: only buffered channels are mediated", r.pos(call))
						}
						if tv, ok := r.p.TypesInfo.Types[call.Args[1]]; ok && tv.Value != nil && tv.Value.String() == "0" {
							fatal("make of an unbuffered channel at %s: only buffered channels are mediated", r.pos(call))
						}
						c.Replace(&ast.CallExpr{Fun: sel("simrt", "ChanMake"), Args: []ast.Expr{call, r.site()}})
						r.changed = true
						st.Sync++
					}
				}
			}
		}
		return
	}
	se, ok := call.Fun.(*ast.SelectorExpr)
	if !ok {
		return
	}
	if id, ok := se.X.(*ast.Ident); ok {
		if pn, ok := r.p.TypesInfo.Uses[id].(*types.PkgName); ok {
			if _, isFunc := r.p.TypesInfo.Uses[se.Sel].(*types.Func); !isFunc {
				return
			}
			q := pn.Imported().Path() + "." + se.Sel.Name
			switch {
			case osWrapped[q] != "":
				call.Fun = sel("simrt", osWrapped[q])
				call.Args = append(call.Args, r.site())
				r.changed = true
				st.OS++
			case osLogged[q]:
				// generic wrapper: simrt.FSxy(op, site, path, rest..., pkg.F); type inference does the rest
				fn := r.p.TypesInfo.Uses[se.Sel].(*types.Func)
				sig := fn.Type().(*types.Signature)
				na, nr := sig.Params().Len(), sig.Results().Len()
				if sig.Variadic() || na < 1 || na > 3 || nr < 1 || nr > 2 || len(call.Args) != na || call.Ellipsis != token.NoPos {
					fatal("file-system call %s at %s: no seam wrapper for this signature", q, r.pos(call))
				}
				if b, ok := sig.Params().At(0).Type().Underlying().(*types.Basic); !ok || b.Kind() != types.String {
					fatal("file-system call %s at %s: first parameter is not a path", q, r.pos(call))
				}
				orig := call.Fun
				args := []ast.Expr{&ast.BasicLit{Kind: token.STRING, Value: fmt.Sprintf("%q", q)}, r.site()}
				args = append(args, call.Args...)
				args = append(args, orig)
				call.Fun = sel("simrt", fmt.Sprintf("FS%d%d", na, nr))
				call.Args = args
				r.changed = true
				st.OS++
			case ambientWrapped[q] != "":
				call.Fun = sel("simrt", ambientWrapped[q])
				call.Args = append(call.Args, r.site())
				r.changed = true
				st.Ambient++
			case ambientRefused[q]:
				fatal("ambient input %s at %s cannot be simulated", q, r.pos(call))
			case pn.Imported().Path() == "sync/atomic" && len(call.Args) > 0:
				// atomic.AddInt32(&x, 1) -> atomic.AddInt32(simrt.AY(site, &x), 1): yield before the operation
				call.Args[0] = &ast.CallExpr{Fun: sel("simrt", "AY"), Args: []ast.Expr{r.site(), call.Args[0]}}
				r.changed = true
				st.Sync++
			}
			return
		}
	}
	s := r.p.TypesInfo.Selections[se]
	if s == nil || s.Kind() != types.MethodVal {
		return
	}
	if r.atomicMethod(call, se, s) {
		return
	}
	tn, isPtr, ok := syncRecv(s)
	if !ok {
		return
	}
	var obj ast.Expr = se.X
	if idx := s.Index(); len(idx) > 1 {
		// promoted through embedded fields: spell the path out
		obj, isPtr = r.embeddedPath(se.X, s)
	}
	if !isPtr {
		obj = &ast.UnaryExpr{Op: token.AND, X: obj}
	}
	m := se.Sel.Name
	switch {
	case tn == "Locker" && (m == "Lock" || m == "Unlock"):
		call.Fun = sel("simrt", m)
		call.Args = []ast.Expr{se.X, r.site()}
	case (tn == "Mutex" || tn == "RWMutex") && (m == "Lock" || m == "Unlock"):
		call.Fun = sel("simrt", m)
		call.Args = []ast.Expr{obj, r.site()}
	case tn == "RWMutex" && (m == "RLock" || m == "RUnlock"):
		call.Fun = sel("simrt", m)
		call.Args = []ast.Expr{obj, r.site()}
	case tn == "Once" && m == "Do":
		call.Fun = sel("simrt", "OnceDo")
		call.Args = []ast.Expr{obj, call.Args[0], r.site()}
	case tn == "Pool" && m == "Get":
		call.Fun = sel("simrt", "PoolGet")
		call.Args = []ast.Expr{obj, r.site()}
	case tn == "Pool" && m == "Put":
		call.Fun = sel("simrt", "PoolPut")
		call.Args = []ast.Expr{obj, call.Args[0], r.site()}
	case tn == "WaitGroup" && m == "Add":
		call.Fun = sel("simrt", "WGAdd")
		call.Args = []ast.Expr{obj, call.Args[0], r.site()}
	case tn == "WaitGroup" && m == "Done":
		call.Fun = sel("simrt", "WGDone")
		call.Args = []ast.Expr{obj, r.site()}
	case tn == "WaitGroup" && m == "Wait":
		call.Fun = sel("simrt", "WGWait")
		call.Args = []ast.Expr{obj, r.site()}
	case tn == "Map" && m != "Range":
		return // internally synchronised, non-blocking
	default:
		fatal("sync.%s.%s at %s cannot be mediated", tn, m, r.pos(call))
	}
	r.changed = true
	st.Sync++
}

// atomicMethod: x.Load() on a sync/atomic type -> simrt.AY(site, &x).Load()
func (r *rewriter) atomicMethod(call *ast.CallExpr, se *ast.SelectorExpr, s *types.Selection) bool {
	f, isFunc := s.Obj().(*types.Func)
	if !isFunc {
		return false
	}
	sig := f.Type().(*types.Signature)
	if sig.Recv() == nil {
		return false
	}
	rt := sig.Recv().Type()
	if pt, ok := rt.(*types.Pointer); ok {
		rt = pt.Elem()
	}
	named, isNamed := rt.(*types.Named)
	if !isNamed || named.Obj().Pkg() == nil {
		return false
	}
	// sync/atomic types, and sync.Map: every operation on them is a scheduling point (a check-
	// then-act over two sync.Map operations is exactly what an interleaving has to be able to split)
	if pp := named.Obj().Pkg().Path(); pp != "sync/atomic" && !(pp == "sync" && named.Obj().Name() == "Map") {
		return false
	}
	var obj ast.Expr = se.X
	if len(s.Index()) > 1 {
		var p bool
		obj, p = r.embeddedPath(se.X, s)
		if !p {
			obj = &ast.UnaryExpr{Op: token.AND, X: obj}
		}
	} else if _, isPtr := s.Recv().(*types.Pointer); !isPtr {
		obj = &ast.UnaryExpr{Op: token.AND, X: se.X}
	}
	se.X = &ast.CallExpr{Fun: sel("simrt", "AY"), Args: []ast.Expr{r.site(), obj}}
	r.changed = true
	st.Sync++
	return true
}

func syncRecv(s *types.Selection) (name string, isPtr bool, ok bool) {
	f, isFunc := s.Obj().(*types.Func)
	if !isFunc {
		return "", false, false
	}
	sig := f.Type().(*types.Signature)
	if sig.Recv() == nil {
		return "", false, false
	}
	rt := sig.Recv().Type()
	if pt, ok := rt.(*types.Pointer); ok {
		rt = pt.Elem()
	}
	named, isNamed := rt.(*types.Named)
	if !isNamed || named.Obj().Pkg() == nil || named.Obj().Pkg().Path() != "sync" {
		return "", false, false
	}
	// is the expression se.X itself a pointer?
	recv := s.Recv()
	_, isPtr = recv.(*types.Pointer)
	return named.Obj().Name(), isPtr, true
}

// embeddedPath turns x.Lock() (promoted from x.a.b.Mutex) into the explicit x.a.b.Mutex.
func (r *rewriter) embeddedPath(x ast.Expr, s *types.Selection) (ast.Expr, bool) {
	t := s.Recv()
	idx := s.Index()
	var e ast.Expr = x
	isPtr := false
	for _, i := range idx[:len(idx)-1] {
		if pt, ok := t.Underlying().(*types.Pointer); ok {
			t = pt.Elem()
		}
		stt, ok := t.Underlying().(*types.Struct)
		if !ok {
			fatal("promoted sync method at %s: cannot resolve embedding", r.pos(x))
		}
		f := stt.Field(i)
		e = &ast.SelectorExpr{X: e, Sel: ast.NewIdent(f.Name())}
		t = f.Type()
		_, isPtr = t.Underlying().(*types.Pointer)
	}
	return e, isPtr
}

func (r *rewriter) checkMethodValue(se *ast.SelectorExpr) {
	if r.callFun[se] {
		return
	}
	s := r.p.TypesInfo.Selections[se]
	if s == nil {
		return
	}
	if s.Kind() != types.MethodVal && s.Kind() != types.MethodExpr {
		return
	}
	if tn, _, ok := syncRecv(s); ok {
		fatal("method value of sync.%s at %s cannot be mediated", tn, r.pos(se))
	}
}
